#!/usr/bin/env python3
"""Prints, per property, what the last thorough run decided (from evidence_thorough/*.json):
deepest level completed by every harness, per-harness levels, wall time, witnesses, second-solver check."""
import json, glob, os
root = os.path.dirname(os.path.abspath(__file__))
print("| id | wall | level completed by every harness | per harness: deepest level completed (paths) / first level abandoned | witnesses replayed | obligations re-asked of z3 5.1 and cvc5 |")
print("|---|---|---|---|---|---|")
for f in sorted(glob.glob(os.path.join(root, "evidence_thorough", "C*.json"))):
    d = json.load(open(f)); c = d["coverage"]
    per = {}
    for l in c.get("levels", []):
        h = l["harness"].split("_", 1)[-1]
        e = per.setdefault(h, {"done": -1, "paths": 0, "abandoned": None})
        if l["completed"]:
            e["done"] = max(e["done"], l["level"]); e["paths"] = l["paths_completed"]
        elif e["abandoned"] is None:
            e["abandoned"] = l["level"]
    cells = "; ".join(f"{h}: L{e['done']} ({e['paths']})" + (f" / L{e['abandoned']}" if e["abandoned"] is not None else "") for h, e in per.items())
    x = c.get("second_solver_check", {})
    print(f"| {d['property_id']} | {round(d['wall_s'])} s | {c.get('level_completed_by_every_harness')} | {cells} | {c['traces_validated_against_impl']} | {x.get('obligations_rechecked')} ({len(x.get('disagreements', []))} disagreements) |")
