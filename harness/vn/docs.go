package vn

// Abstract documents: JWTs, JSON bodies, URLs and key sets. Symbolically these are opaque
// strings/objects whose *meaning* (claims, members, URL components) is registered with the
// engine; natively real artefacts are built from the same description.

import (
	"encoding/json"
	"io"
	"strconv"
	"strings"
	"time"

	"github.com/lestrrat-go/jwx/v2/jwk"
)

// NativeJWT / NativeKeySet are installed by the harness package that knows how to sign tokens.
var (
	NativeJWT    func(name string, wellFormed bool, nonceKind int, nonce string, aud []string, exp time.Time, sigValid bool) string
	NativeKeySet func(name string) jwk.Set
)

// JWT returns a token string. nonceKind: 0 absent, 1 string, 2 number, 3 bool, 4 array.
// naud in 0..2. sigValid: signed by the key set named "good".
func JWT(name string, wellFormed bool, nonceKind int, nonce string, naud int, aud0, aud1 string, exp time.Time, sigValid bool) string {
	var aud []string
	if naud >= 1 {
		aud = append(aud, aud0)
	}
	if naud >= 2 {
		aud = append(aud, aud1)
	}
	return NativeJWT(name, wellFormed, nonceKind, nonce, aud, exp, sigValid)
}

func KeySet(name string) jwk.Set { return NativeKeySet(name) }

// SameKeySet compares key sets by content.
func SameKeySet(a, b jwk.Set) bool {
	if a == nil || b == nil {
		return a == nil && b == nil
	}
	ja, _ := json.Marshal(a)
	jb, _ := json.Marshal(b)
	return string(ja) == string(jb)
}

type jsonDoc struct {
	kind    int
	members []string
}

var jsonDocs []*jsonDoc

// NewJSON starts a JSON document. kind: 0 malformed, 1 null, 2 non-object value, 3 object.
func NewJSON(name string, kind int) int {
	jsonDocs = append(jsonDocs, &jsonDoc{kind: kind})
	return len(jsonDocs) - 1
}

// JSONStr adds a member. kind: 0 absent, 1 string, 2 integer, 3 non-integer number, 4 other kind, 5 null.
func JSONStr(doc int, member string, kind int, value string) {
	jsonMember(doc, member, kind, func() string { b, _ := json.Marshal(value); return string(b) })
}

func JSONNum(doc int, member string, kind int, value int64) {
	jsonMember(doc, member, kind, func() string { return strconv.FormatInt(value, 10) })
}

func jsonMember(doc int, member string, kind int, exact func() string) {
	d := jsonDocs[doc]
	k, _ := json.Marshal(member)
	switch kind {
	case 0:
	case 1, 2:
		if kind == 1 {
			b := exact()
			if !strings.HasPrefix(b, `"`) { // JSONNum with kind 1: a string where a number is expected
				b = `"` + b + `"`
			}
			d.members = append(d.members, string(k)+":"+b)
		} else {
			b := exact()
			if strings.HasPrefix(b, `"`) { // JSONStr with kind 2: a number where a string is expected
				b = "7"
			}
			d.members = append(d.members, string(k)+":"+b)
		}
	case 3:
		d.members = append(d.members, string(k)+":1.5e300")
	case 4:
		d.members = append(d.members, string(k)+":[true]")
	case 5:
		d.members = append(d.members, string(k)+":null")
	}
}

func JSONText(doc int) string {
	d := jsonDocs[doc]
	switch d.kind {
	case 0:
		return `{"id_token": `
	case 1:
		return `null`
	case 2:
		return `[1,2]`
	}
	return "{" + strings.Join(d.members, ",") + "}"
}

// URL returns scheme://host[:port]path[?query]; the components must come from the alphabets the
// harness states (so that url.Parse recovers exactly these components).
func URL(scheme, host, port, path, query string) string {
	s := scheme + "://" + host
	if port != "" {
		s += ":" + port
	}
	s += path
	if query != "" {
		s += "?" + query
	}
	return s
}

type failingReader struct{}

func (failingReader) Read([]byte) (int, error) { return 0, io.ErrUnexpectedEOF }

// FailingReader returns a reader whose Read fails (a response body that breaks off).
func FailingReader() io.Reader { return failingReader{} }

// Secret marks s as a credential of the given class (1 client secret, 2 PKCE verifier, 4 refresh
// token, 8 access token, 16 ID token) for the taint analysis of C14; TaintOf returns the classes
// whose bytes s may carry. Natively: substring search for the registered values.
type secretRec struct {
	val   string
	class int
}

var secrets []secretRec

// Natively the value is extended by a unique marker, so that its occurrence anywhere (in any
// encoding that keeps ASCII letters) is detectable without false positives from short values.
func Secret(s string, class int) string {
	if s == "" {
		return s
	}
	marker := "zqS" + strconv.Itoa(len(secrets)) + "Sqz"
	secrets = append(secrets, secretRec{marker, class})
	return s + marker
}

// SecretExact registers a long, already unique value (a real JWT) as it is.
func SecretExact(s string, class int) string {
	if s != "" {
		secrets = append(secrets, secretRec{s, class})
	}
	return s
}

func TaintOf(s string) int {
	t := 0
	for _, r := range secrets {
		if strings.Contains(s, r.val) {
			t |= r.class
		}
	}
	return t
}

// JWKSDoc returns the JSON document of the named key set (engine: an abstract document that
// jwk.Parse maps back to the named set).
func JWKSDoc(name string) string {
	b, err := json.Marshal(NativeKeySet(name))
	if err != nil {
		panic(err)
	}
	return string(b)
}

// FetchedKeySet is (symbolically) the key set the modelled jwk.Cache returns for a registered URL.
// The native twins of harnesses that use it run the real cache against a real endpoint instead.
func FetchedKeySet(uri string) jwk.Set { return nil }

// JWKCacheOption reports (symbolically) what the code under test handed to the modelled jwk.Cache:
// for uri == "" the options of jwk.NewCache, otherwise those of Cache.Register(uri, ...). name is
// the option constructor without "With" (RefreshInterval, MinRefreshInterval, RefreshWindow,
// HTTPClient, ErrSink); the duration is meaningful for the duration-valued ones.
func JWKCacheOption(cache *jwk.Cache, uri, name string) (time.Duration, bool) { return 0, false }
