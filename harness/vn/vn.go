// Package vn is the nondeterminism / assertion API of the verification harnesses.
//
// The symbolic engine (gosym) intercepts every function of this package by name; the bodies
// below are the NATIVE twins used when a solver model is replayed against the real code with
// `go test -overlay`: values are read from the counterexample file named by $VERIF_CEX.
package vn

import (
	"encoding/json"
	"fmt"
	"math/big"
	"os"
	"strings"
	"sync"
	"time"
)

type input struct {
	Name  string `json:"name"`
	Kind  string `json:"kind"`
	Int   string `json:"int,omitempty"`
	Bool  bool   `json:"bool,omitempty"`
	Bytes []byte `json:"bytes,omitempty"`
	Pick  int    `json:"pick,omitempty"`
}

type cexFile struct {
	Harness string            `json:"harness"`
	Label   string            `json:"label"`
	Inputs  []input           `json:"inputs"`
	Bounds  map[string]int    `json:"bounds"`
	Extra   map[string]string `json:"extra"`
}

// Result is what a native replay observed.
type Result struct {
	Failed   []string `json:"failed"`
	Covered  []string `json:"covered"`
	Aborted  string   `json:"aborted,omitempty"`
	Panic    string   `json:"panic,omitempty"`
	Events   []string `json:"events,omitempty"`
	Consumed int      `json:"consumed"`
}

type stop struct{ why string }

var (
	mu     sync.Mutex
	cex    *cexFile
	byName map[string][]input
	res    Result
)

// Load reads the counterexample file; used by the replay test.
func Load(path string) error {
	b, err := os.ReadFile(path)
	if err != nil {
		return err
	}
	c := &cexFile{}
	if err := json.Unmarshal(b, c); err != nil {
		return err
	}
	mu.Lock()
	defer mu.Unlock()
	cex = c
	byName = map[string][]input{}
	for _, in := range c.Inputs {
		byName[in.Name] = append(byName[in.Name], in)
	}
	res = Result{}
	return nil
}

func HarnessName() string { return cex.Harness }
func Label() string       { return cex.Label }

// Run executes f, converting harness stops into a Result.
func Run(f func()) (r Result) {
	defer func() {
		if x := recover(); x != nil {
			if s, ok := x.(stop); ok {
				mu.Lock()
				if s.why != "" {
					res.Aborted = s.why
				}
				mu.Unlock()
			} else {
				mu.Lock()
				res.Panic = fmt.Sprint(x)
				mu.Unlock()
			}
		}
		mu.Lock()
		r = res
		mu.Unlock()
	}()
	f()
	return
}

func next(name, kind string) input {
	mu.Lock()
	defer mu.Unlock()
	q := byName[name]
	if len(q) == 0 {
		panic(stop{"no recorded value for " + kind + " " + name})
	}
	byName[name] = q[1:]
	res.Consumed++
	return q[0]
}

// Symbolic reports whether the code runs inside the symbolic engine.
func Symbolic() bool { return false }

func Bool(name string) bool { return next(name, "bool").Bool }

func Int(name string, lo, hi int64) int64 {
	v, _ := new(big.Int).SetString(next(name, "int").Int, 10)
	if v == nil {
		return lo
	}
	return v.Int64()
}

func String(name string, cap int) string { return string(next(name, "string").Bytes) }

func StringIn(name string, cap int, alphabet string) string {
	return string(next(name, "string").Bytes)
}

func Choice(name string, n int) int { return next(name, "choice").Pick }

// Time returns an arbitrary instant inside the stated range (see bounds time-lo / time-hi).
func Time(name string) time.Time {
	v, _ := new(big.Int).SetString(next(name, "time").Int, 10)
	if v == nil {
		return time.Time{}
	}
	sec := new(big.Int)
	ns := new(big.Int)
	sec.DivMod(v, big.NewInt(1000000000), ns)
	return time.Unix(sec.Int64(), ns.Int64()).UTC()
}

// TimeOrZero is Time, or the zero time.Time.
func TimeOrZero(name string) time.Time {
	in := next(name, "time")
	v, _ := new(big.Int).SetString(in.Int, 10)
	if v == nil || v.Cmp(new(big.Int).Mul(big.NewInt(-62135596800), big.NewInt(1000000000))) == 0 {
		return time.Time{}
	}
	sec := new(big.Int)
	ns := new(big.Int)
	sec.DivMod(v, big.NewInt(1000000000), ns)
	return time.Unix(sec.Int64(), ns.Int64()).UTC()
}

func Bound(name string, def int) int {
	if cex != nil {
		if v, ok := cex.Bounds[name]; ok {
			return v
		}
	}
	return def
}

func Assume(c bool) {
	if !c {
		panic(stop{"assumption false"})
	}
}

func Assert(label string, c bool) {
	if !c {
		mu.Lock()
		res.Failed = append(res.Failed, label)
		mu.Unlock()
		panic(stop{""})
	}
}

func Cover(label string, c bool) {
	if c {
		mu.Lock()
		res.Covered = append(res.Covered, label)
		mu.Unlock()
	}
}

func Event(s string) {
	mu.Lock()
	res.Events = append(res.Events, s)
	mu.Unlock()
}

func Tag(s string) {}

// Non-short-circuit connectives: they keep harness conditions as single solver terms.
func And(a ...bool) bool {
	r := true
	for _, x := range a {
		r = r && x
	}
	return r
}

func Or(a ...bool) bool {
	r := false
	for _, x := range a {
		r = r || x
	}
	return r
}

func Implies(a, b bool) bool { return !a || b }

// Spawn / Yield / RunAll: virtual threads under the engine's scheduler. Natively the recorded
// schedule is replayed by running threads as coroutines.
type thread struct {
	name string
	f    func()
	wake chan struct{}
	done bool
}

var (
	threads []*thread
	cur     *thread
	mainCh  = make(chan struct{})
)

func Spawn(name string, f func()) {
	threads = append(threads, &thread{name: name, f: f, wake: make(chan struct{})})
}

// RunAll runs all spawned threads to completion under the recorded schedule.
func RunAll() {
	started := map[*thread]bool{}
	for {
		var live []*thread
		for _, t := range threads {
			if !t.done {
				live = append(live, t)
			}
		}
		if len(live) == 0 {
			break
		}
		pick := 0
		if len(live) > 1 {
			pick = Choice("sched", len(live))
		}
		t := live[pick]
		cur = t
		if !started[t] {
			started[t] = true
			go func() {
				<-t.wake
				defer func() {
					x := recover()
					t.done = true
					if x != nil {
						if s, ok := x.(stop); ok {
							mu.Lock()
							if s.why != "" && res.Aborted == "" {
								res.Aborted = s.why
							}
							mu.Unlock()
						} else {
							mu.Lock()
							res.Panic = fmt.Sprint(x)
							mu.Unlock()
						}
					}
					mainCh <- struct{}{}
				}()
				t.f()
			}()
		}
		t.wake <- struct{}{}
		<-mainCh
	}
	threads = nil
	cur = nil
}

// Yield hands control back to the scheduler (only meaningful inside a spawned thread).
func Yield(point string) {
	if cur == nil {
		return
	}
	t := cur
	mainCh <- struct{}{}
	<-t.wake
}

// Watch / Unwatch / MutexHeld: lock-discipline audit (engine only; natively the race detector
// and TryLock play that role).
func Watch(x interface{}) {}
func Unwatch()            {}
func MutexHeld(m *sync.Mutex) bool {
	if m.TryLock() {
		m.Unlock()
		return false
	}
	return true
}

// SetNow fixes what time.Now() returns inside the engine (natively a no-op: real time).
func SetNow(t time.Time) {}

// AssertSat: the condition must be satisfiable (engine). Natively the harness demonstrates the
// violation by an explicit attack and reports it with Assert.
func AssertSat(label string, c bool) {}

// Check is Assert without stopping the native run at the first failure.
func Check(label string, c bool) {
	if !c {
		mu.Lock()
		res.Failed = append(res.Failed, label)
		mu.Unlock()
	}
}

// StageProto hands the engine the message that the staged os.ReadFile / protojson.Unmarshal pair
// "decodes" (natively the harness writes a real JSON file instead).
func StageProto(m interface{}) {}

// FilePath / SetFile: files the code under test reads. Engine: abstract file table; natively
// real files in a temporary directory.
var fileDir string

func FilePath(name string) string {
	if fileDir == "" {
		d, err := os.MkdirTemp("", "verif-files-")
		if err != nil {
			panic(err)
		}
		fileDir = d
	}
	return fileDir + "/" + name
}

func SetFile(path, content string, readable bool) {
	if !readable {
		_ = os.Remove(path)
		return
	}
	if err := os.WriteFile(path, []byte(content), 0o600); err != nil {
		panic(err)
	}
}

// WatchWrites: like Watch, but only writes to the object must happen under a lock (objects that
// are read without locks by design, such as the shared configuration).
func WatchWrites(x interface{}) {}

// WatchSharedWrites (engine): from here to Unwatch every write to an object that already exists
// now must happen with a mutex held -- such an object outlives the audited call and a concurrent
// call reaches it too. Objects allocated afterwards are local to the call. Natively a no-op (the
// twin runs the call from several goroutines under the race detector).
func WatchSharedWrites() {}

// LocksHeld (engine): how many mutexes (read or write) the calling path holds. Natively 0: the
// twin probes liveness instead.
func LocksHeld() int { return 0 }

// extraClaims returns the claims recorded for the token of this name as inputs
// "<token>-claim-<claim>-present" (bool) and "<token>-claim-<claim>" (string).
func extraClaims(token string) map[string]string {
	mu.Lock()
	defer mu.Unlock()
	out := map[string]string{}
	if cex == nil {
		return out
	}
	prefix := token + "-claim-"
	present := map[string]bool{}
	vals := map[string]string{}
	for _, in := range cex.Inputs {
		if !strings.HasPrefix(in.Name, prefix) {
			continue
		}
		rest := strings.TrimPrefix(in.Name, prefix)
		if strings.HasSuffix(rest, "-present") {
			present[strings.TrimSuffix(rest, "-present")] = in.Bool
		} else {
			vals[rest] = string(in.Bytes)
		}
	}
	for c, p := range present {
		if p {
			out[c] = vals[c]
		}
	}
	return out
}
