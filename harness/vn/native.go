package vn

// Native-only helpers for replaying solver models against the real code: real RSA keys, real
// signed JWTs, real key sets. Never executed symbolically (guarded by vn.Symbolic()).

import (
	"crypto/rand"
	"crypto/rsa"
	"sync"
	"time"

	"github.com/lestrrat-go/jwx/v2/jwa"
	"github.com/lestrrat-go/jwx/v2/jwk"
	"github.com/lestrrat-go/jwx/v2/jwt"

)

var (
	nativeOnce            sync.Once
	nativeGoodPriv        jwk.Key
	nativeBadPriv         jwk.Key
	nativeSets            = map[string]jwk.Set{}
	nativeJWTCount        int
	nativeGarbageTokenSeq int
)

func nativeKeys() {
	nativeOnce.Do(func() {
		mk := func(kid string) (jwk.Key, jwk.Key) {
			rk, err := rsa.GenerateKey(rand.Reader, 2048)
			if err != nil {
				panic(err)
			}
			priv, _ := jwk.FromRaw(rk)
			_ = priv.Set(jwk.KeyIDKey, kid)
			pub, _ := jwk.FromRaw(rk.PublicKey)
			_ = pub.Set(jwk.KeyIDKey, kid)
			_ = pub.Set(jwk.AlgorithmKey, jwa.RS256)
			return priv, pub
		}
		var goodPub, otherPub jwk.Key
		nativeGoodPriv, goodPub = mk("k1")
		nativeBadPriv, otherPub = mk("k1")
		good := jwk.NewSet()
		_ = good.AddKey(goodPub)
		other := jwk.NewSet()
		_ = other.AddKey(otherPub)
		nativeSets["good"] = good
		nativeSets["other"] = other
	})
}

func nativeKeySet(name string) jwk.Set {
	nativeKeys()
	if s, ok := nativeSets[name]; ok {
		return s
	}
	s := jwk.NewSet()
	nativeSets[name] = s
	return s
}

func nativeJWT(name string, wellFormed bool, nonceKind int, nonce string, aud []string, exp time.Time, sigValid bool) string {
	nativeKeys()
	nativeJWTCount++
	if !wellFormed {
		nativeGarbageTokenSeq++
		return "garbage.token." + string(rune('a'+nativeGarbageTokenSeq%26)) + name
	}
	b := jwt.NewBuilder().JwtID(name + "-" + string(rune('a'+nativeJWTCount%26)) + string(rune('a'+(nativeJWTCount/26)%26)))
	switch nonceKind {
	case 1:
		b = b.Claim("nonce", nonce)
	case 2:
		b = b.Claim("nonce", 1)
	case 3:
		b = b.Claim("nonce", true)
	case 4:
		b = b.Claim("nonce", []interface{}{})
	}
	if len(aud) > 0 {
		b = b.Audience(aud)
	}
	b = b.Expiration(exp)
	// claims the code under test asked for during the symbolic run (drawn lazily by the engine)
	for claim, v := range extraClaims(name) {
		b = b.Claim(claim, v)
	}
	tok, err := b.Build()
	if err != nil {
		panic(err)
	}
	key := nativeGoodPriv
	if !sigValid {
		key = nativeBadPriv
	}
	signed, err := jwt.Sign(tok, jwt.WithKey(jwa.RS256, key))
	if err != nil {
		panic(err)
	}
	return SecretExact(string(signed), 16)
}

func init() {
	NativeJWT = nativeJWT
	NativeKeySet = nativeKeySet
}
