package oidc

import (
	"io"
	"net/http"
	"strings"
	"time"

	"github.com/alicebob/miniredis/v2"
	"github.com/redis/go-redis/v9"

	configv1 "github.com/istio-ecosystem/authservice/config/gen/go/v1"
	oidcv1 "github.com/istio-ecosystem/authservice/config/gen/go/v1/oidc"
	"github.com/istio-ecosystem/authservice/internal/vn"
)

func init() {
	verifHarnesses["VerifC18_TimeoutsPerFilter"] = VerifC18_TimeoutsPerFilter
	verifHarnesses["VerifC18_DiscoveryIsPerConfigurationURI"] = VerifC18_DiscoveryIsPerConfigurationURI
}

// VerifC18_TimeoutsPerFilter: the real start-up wiring (sessionStoreFactory.PreRun / Get) for two
// OIDC filters with their own absolute / idle timeouts, backed by the shared in-memory store or
// by Redis (same or different server URI): the store a filter gets must enforce that filter's
// own timeouts (this is also the wiring part of C10).
func VerifC18_TimeoutsPerFilter() {
	mk := func(n string, redisURI string) *oidcv1.OIDCConfig {
		c := &oidcv1.OIDCConfig{
			ClientId:               n,
			AbsoluteSessionTimeout: uint32(vn.Int(n+"-absolute-timeout-s", 0, 4294967295)),
			IdleSessionTimeout:     uint32(vn.Int(n+"-idle-timeout-s", 0, 4294967295)),
		}
		if redisURI != "" {
			c.RedisSessionStoreConfig = &oidcv1.RedisConfig{ServerUri: redisURI}
		}
		return c
	}
	var uriA, uriB string
	switch vn.Choice("backing", 4) {
	case 0: // both in memory
		vn.Tag("shared-memory-store")
	case 1: // same Redis
		uriA, uriB = kitRedisURI("r1"), kitRedisURI("r1")
		vn.Tag("shared-redis-uri")
	case 2: // different Redis servers
		uriA, uriB = kitRedisURI("r1"), kitRedisURI("r2")
	default: // one Redis server, separate databases
		uriA, uriB = kitRedisURI("r1")+"/0", kitRedisURI("r1")+"/1"
	}
	a, b := mk("a", uriA), mk("b", uriB)
	cfg := &configv1.Config{Chains: []*configv1.FilterChain{
		{Name: "a", Filters: []*configv1.Filter{{Type: &configv1.Filter_Oidc{Oidc: a}}}},
		{Name: "b", Filters: []*configv1.Filter{{Type: &configv1.Filter_Oidc{Oidc: b}}}},
	}}
	f := NewSessionStoreFactory(cfg)
	err := f.PreRun()
	vn.Assert("C18/start-up", err == nil)
	timeouts := func(s SessionStore) (time.Duration, time.Duration) {
		switch x := s.(type) {
		case *memoryStore:
			return x.absoluteSessionTimeout, x.idleSessionTimeout
		case *redisStore:
			return x.absoluteSessionTimeout, x.idleSessionTimeout
		}
		return -1, -1
	}
	// a Redis-backed filter's store talks to the server / database / credentials of its own URI
	for _, oc := range []*oidcv1.OIDCConfig{a, b} {
		uri := oc.GetRedisSessionStoreConfig().GetServerUri()
		if uri == "" {
			continue
		}
		rs, isRedis := f.Get(oc).(*redisStore)
		vn.Assert("C18/redis-filter-gets-a-redis-store", isRedis)
		if !isRedis {
			continue
		}
		want, perr := redis.ParseURL(uri)
		cl, isClient := rs.client.(*redis.Client)
		if perr == nil && isClient {
			got := cl.Options()
			vn.Assert("C18/redis-store-uses-the-filter's-own-server-and-database", vn.And(got.Addr == want.Addr, got.DB == want.DB, got.Username == want.Username, got.Password == want.Password))
		}
	}
	absA, idleA := timeouts(f.Get(a))
	absB, idleB := timeouts(f.Get(b))
	vn.Cover("C18/wiring", true)
	vn.Assert("C18/first-filter-gets-its-own-timeouts", vn.And(absA == time.Duration(a.AbsoluteSessionTimeout)*time.Second, idleA == time.Duration(a.IdleSessionTimeout)*time.Second))
	vn.Assert("C18/second-filter-gets-its-own-timeouts", vn.And(absB == time.Duration(b.AbsoluteSessionTimeout)*time.Second, idleB == time.Duration(b.IdleSessionTimeout)*time.Second))
}

var kitMiniredis = map[string]*miniredis.Miniredis{}

// kitRedisURI: symbolically just a name; natively a miniredis instance per name.
func kitRedisURI(name string) string {
	if vn.Symbolic() {
		return "redis://" + name
	}
	mr, ok := kitMiniredis[name]
	if !ok {
		var err error
		mr, err = miniredis.Run()
		if err != nil {
			panic(err)
		}
		kitMiniredis[name] = mr
	}
	return "redis://" + mr.Addr()
}

func init() {
	verifHarnesses["VerifC10_StartUpWiring"] = VerifC10_StartUpWiring
}

// VerifC10_StartUpWiring: the store that the real start-up code (sessionStoreFactory.PreRun / Get)
// hands to a single OIDC filter -- in-memory or Redis -- enforces that filter's absolute and idle
// timeouts, in that order, and nobody has to call a clean-up routine for that: a session written
// through it is not returned beyond either limit.
func VerifC10_StartUpWiring() {
	abs := uint32(vn.Int("absolute-timeout-s", 0, 4294967295))
	idle := uint32(vn.Int("idle-timeout-s", 0, 4294967295))
	oc := &oidcv1.OIDCConfig{ClientId: "c", AbsoluteSessionTimeout: abs, IdleSessionTimeout: idle}
	useRedis := vn.Choice("backing", 2) == 1
	if useRedis {
		oc.RedisSessionStoreConfig = &oidcv1.RedisConfig{ServerUri: kitRedisURI("w")}
	}
	cfg := &configv1.Config{Chains: []*configv1.FilterChain{{Name: "a", Filters: []*configv1.Filter{{Type: &configv1.Filter_Oidc{Oidc: oc}}}}}}
	f := NewSessionStoreFactory(cfg)
	vn.Assert("C10/start-up", f.PreRun() == nil)
	var gotAbs, gotIdle time.Duration = -1, -1
	switch x := f.Get(oc).(type) {
	case *memoryStore:
		gotAbs, gotIdle = x.absoluteSessionTimeout, x.idleSessionTimeout
		vn.Assert("C10/memory-backing", !useRedis)
	case *redisStore:
		gotAbs, gotIdle = x.absoluteSessionTimeout, x.idleSessionTimeout
		vn.Assert("C10/redis-backing", useRedis)
	}
	vn.Cover("C10/wiring", true)
	vn.Assert("C10/store-built-with-the-filter's-absolute-timeout", gotAbs == time.Duration(abs)*time.Second)
	vn.Assert("C10/store-built-with-the-filter's-idle-timeout", gotIdle == time.Duration(idle)*time.Second)
}

// kitDiscoveryByURL is a provider that serves one discovery document per exact request URL.
type kitDiscoveryByURL struct {
	docs  map[string]string
	asked []string
}

func (d *kitDiscoveryByURL) RoundTrip(r *http.Request) (*http.Response, error) {
	u := r.URL.String()
	d.asked = append(d.asked, u)
	body, ok := d.docs[u]
	if !ok {
		return &http.Response{StatusCode: 404, Status: "404 Not Found", Body: io.NopCloser(strings.NewReader(""))}, nil
	}
	return &http.Response{StatusCode: 200, Status: "200 OK", Body: io.NopCloser(strings.NewReader(body))}, nil
}

// VerifC18_DiscoveryIsPerConfigurationURI: "each filter's own endpoints govern its sessions" for
// filters that discover them. The process-wide discovery cache is shared by all filters; two
// filters whose configuration URIs denote different resources (another host, another path, or the
// same path with another query -- tenants and policies are commonly selected that way) each get
// the endpoints published at THEIR URI, in whichever order they ask and however often.
func VerifC18_DiscoveryIsPerConfigurationURI() {
	uris := []string{
		"https://idp.example/.well-known/openid-configuration",
		"https://idp.example/.well-known/openid-configuration?p=tenant-a",
		"https://idp.example/.well-known/openid-configuration?p=tenant-b",
		"https://idp.example/tenant-a/.well-known/openid-configuration",
		"https://other.example/.well-known/openid-configuration",
	}
	idp := &kitDiscoveryByURL{docs: map[string]string{}}
	ends := make([]string, len(uris))
	for i, u := range uris {
		ends[i] = "https://authz-" + string(rune('0'+i)) + ".example/authorize"
		doc := vn.NewJSON("discovery"+string(rune('0'+i)), 3)
		vn.JSONStr(doc, "authorization_endpoint", 1, ends[i])
		vn.JSONStr(doc, "token_endpoint", 1, "https://token-"+string(rune('0'+i))+".example/token")
		vn.JSONStr(doc, "jwks_uri", 1, "https://keys-"+string(rune('0'+i))+".example/keys")
		idp.docs[u] = vn.JSONText(doc)
	}
	client := &http.Client{Transport: idp}
	a := vn.Choice("first-filter-uri", len(uris))
	b := vn.Choice("second-filter-uri", len(uris))
	if a == b {
		return
	}
	ask := func(label string, i int) {
		got, err := GetWellKnownConfig(client, uris[i])
		vn.Assert("C18/discovered-endpoints-are-those-of-the-filter's-own-uri:"+label, vn.And(err == nil, got.AuthorizationEndpoint == ends[i],
			got.TokenEndpoint == "https://token-"+string(rune('0'+i))+".example/token", got.JWKSURL == "https://keys-"+string(rune('0'+i))+".example/keys"))
	}
	ask("first", a)
	ask("second", b)
	ask("first-again", a)
	vn.Cover("C18/discovery-per-uri", true)
}
