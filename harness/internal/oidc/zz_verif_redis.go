package oidc

import (
	"context"
	"errors"
	"time"

	"github.com/alicebob/miniredis/v2"
	mrserver "github.com/alicebob/miniredis/v2/server"
	"github.com/redis/go-redis/v9"

	"github.com/istio-ecosystem/authservice/internal/vn"
)

func init() {
	verifHarnesses["VerifRedisCommandFailureIsReported"] = VerifRedisCommandFailureIsReported
	verifHarnesses["VerifC10_RedisTimeouts"] = VerifC10_RedisTimeouts
	verifHarnesses["VerifC10_RedisExpiryFormula"] = VerifC10_RedisExpiryFormula
}

var errRedisInjected = errors.New("injected redis fault")

// symHash is one Redis hash key with its optional expiry.
type symHash struct {
	fields    map[string]interface{}
	hasExpiry bool
	expireAt  time.Time
}

type symRedisCmd struct {
	name  string
	key   string
	field string
	at    time.Time
}

// symRedis is a command-level model of the Redis commands the store uses, with TTL semantics
// against the harness clock (a key disappears once now >= its EXPIREAT instant, whole seconds).
// Only the commands below are implemented; any other command of redis.Cmdable panics (nil embed).
type symRedis struct {
	redis.Cmdable
	keys map[string]*symHash
	now  func() time.Time
	log  []symRedisCmd
	// fault injection: when armed, the command with index failAt (and only that one) fails
	// before taking effect
	armed  bool
	failAt int
	count  int
	failed bool
}

func (r *symRedis) fails() bool {
	i := r.count
	r.count++
	if r.armed && i == r.failAt {
		r.failed = true
		return true
	}
	return false
}

func newSymRedis(now func() time.Time) *symRedis {
	return &symRedis{keys: map[string]*symHash{}, now: now}
}

func (r *symRedis) live(key string) *symHash {
	h := r.keys[key]
	if h == nil {
		return nil
	}
	if h.hasExpiry && !r.now().Before(h.expireAt) {
		delete(r.keys, key)
		return nil
	}
	return h
}

func (r *symRedis) ensure(key string) *symHash {
	h := r.live(key)
	if h == nil {
		h = &symHash{fields: map[string]interface{}{}}
		r.keys[key] = h
	}
	return h
}

func (r *symRedis) Ping(ctx context.Context) *redis.StatusCmd {
	if r.fails() {
		return redis.NewStatusResult("", errRedisInjected)
	}
	return redis.NewStatusResult("PONG", nil)
}

func (r *symRedis) HSet(ctx context.Context, key string, values ...interface{}) *redis.IntCmd {
	if r.fails() {
		return redis.NewIntResult(0, errRedisInjected)
	}
	h := r.ensure(key)
	n := int64(0)
	for i := 0; i+1 < len(values); i += 2 {
		f := values[i].(string)
		if _, had := h.fields[f]; !had {
			n++ // HSET answers with the number of fields that were added, not of those updated
		}
		h.fields[f] = values[i+1]
		r.log = append(r.log, symRedisCmd{name: "HSET", key: key, field: f})
	}
	return redis.NewIntResult(n, nil)
}

func (r *symRedis) HMSet(ctx context.Context, key string, values ...interface{}) *redis.BoolCmd {
	if r.fails() {
		return redis.NewBoolResult(false, errRedisInjected)
	}
	h := r.ensure(key)
	if len(values) == 1 {
		if m, ok := values[0].(map[string]interface{}); ok {
			for f, v := range m {
				h.fields[f] = v
				r.log = append(r.log, symRedisCmd{name: "HSET", key: key, field: f})
			}
		}
	}
	return redis.NewBoolResult(true, nil)
}

func (r *symRedis) HSetNX(ctx context.Context, key, field string, value interface{}) *redis.BoolCmd {
	if r.fails() {
		return redis.NewBoolResult(false, errRedisInjected)
	}
	h := r.ensure(key)
	if _, ok := h.fields[field]; ok {
		return redis.NewBoolResult(false, nil)
	}
	h.fields[field] = value
	r.log = append(r.log, symRedisCmd{name: "HSETNX", key: key, field: field})
	return redis.NewBoolResult(true, nil)
}

func (r *symRedis) HDel(ctx context.Context, key string, fields ...string) *redis.IntCmd {
	if r.fails() {
		return redis.NewIntResult(0, errRedisInjected)
	}
	h := r.live(key)
	n := int64(0)
	if h != nil {
		for _, f := range fields {
			if _, ok := h.fields[f]; ok {
				delete(h.fields, f)
				n++
			}
		}
		if len(h.fields) == 0 {
			delete(r.keys, key)
		}
	}
	return redis.NewIntResult(n, nil)
}

func (r *symRedis) HMGet(ctx context.Context, key string, fields ...string) *redis.SliceCmd {
	if r.fails() {
		cmd := redis.NewSliceCmd(ctx, "hmget", key)
		cmd.SetErr(errRedisInjected)
		return cmd
	}
	args := []interface{}{"hmget", key}
	for _, f := range fields {
		args = append(args, f)
	}
	cmd := redis.NewSliceCmd(ctx, args...)
	vals := make([]interface{}, len(fields))
	if h := r.live(key); h != nil {
		for i, f := range fields {
			if v, ok := h.fields[f]; ok {
				vals[i] = v
			}
		}
	}
	cmd.SetVal(vals)
	return cmd
}

func (r *symRedis) HGet(ctx context.Context, key, field string) *redis.StringCmd {
	if r.fails() {
		return redis.NewStringResult("", errRedisInjected)
	}
	if h := r.live(key); h != nil {
		if v, ok := h.fields[field]; ok {
			switch x := v.(type) {
			case string:
				return redis.NewStringResult(x, nil)
			case time.Time:
				return redis.NewStringResult(x.Format(time.RFC3339Nano), nil)
			}
		}
	}
	return redis.NewStringResult("", redis.Nil)
}

func (r *symRedis) Del(ctx context.Context, keys ...string) *redis.IntCmd {
	if r.fails() {
		return redis.NewIntResult(0, errRedisInjected)
	}
	n := int64(0)
	for _, k := range keys {
		if r.live(k) != nil {
			delete(r.keys, k)
			n++
		}
		r.log = append(r.log, symRedisCmd{name: "DEL", key: k})
	}
	return redis.NewIntResult(n, nil)
}

func (r *symRedis) ExpireAt(ctx context.Context, key string, tm time.Time) *redis.BoolCmd {
	if r.fails() {
		return redis.NewBoolResult(false, errRedisInjected)
	}
	r.log = append(r.log, symRedisCmd{name: "EXPIREAT", key: key, at: tm})
	h := r.live(key)
	if h == nil {
		return redis.NewBoolResult(false, nil)
	}
	h.hasExpiry = true
	h.expireAt = tm.Truncate(time.Second) // go-redis sends tm.Unix()
	return redis.NewBoolResult(true, nil)
}

// ---------------------------------------------------------------- harness environment

type kitRedis struct {
	now   time.Time
	store SessionStore
	model *symRedis          // symbolic runs
	mr    *miniredis.Miniredis // native replays
	nativeFailed bool
	abs   time.Duration
	idle  time.Duration
}

func kitRedisStore() *kitRedis {
	k := &kitRedis{}
	k.abs = time.Duration(vn.Int("absolute-timeout-s", 0, 4294967295)) * time.Second
	k.idle = time.Duration(vn.Int("idle-timeout-s", 0, 4294967295)) * time.Second
	k.now = vn.Time("now0")
	clock := &Clock{NowFn: func() time.Time { return k.now }}
	client := kitRedisClient(k)
	s, err := NewRedisStore(clock, client, k.abs, k.idle)
	vn.Assert("kit/redis-store-created", err == nil)
	k.store = s
	return k
}

func kitRedisClient(k *kitRedis) redis.Cmdable {
	if vn.Symbolic() {
		k.model = newSymRedis(func() time.Time { return k.now })
		return k.model
	}
	mr, err := miniredis.Run()
	if err != nil {
		panic(err)
	}
	mr.SetTime(k.now)
	k.mr = mr
	return redis.NewClient(&redis.Options{Addr: mr.Addr()})
}

// advance moves the clock forward to t (t >= now).
func (k *kitRedis) advance(t time.Time) {
	if k.mr != nil {
		k.mr.FastForward(t.Sub(k.now))
		k.mr.SetTime(t)
	}
	k.now = t
}

func (k *kitRedis) close() {
	if k.mr != nil {
		k.mr.Close()
	}
}

// VerifC10_RedisTimeouts: create a session at now0, optionally use it at now1, read it at now2.
// It is not honoured beyond creation+absolute or last-use+idle (one second of granularity
// aside) and it is honoured inside both limits.
func VerifC10_RedisTimeouts() {
	k := kitRedisStore()
	defer k.close()
	ctx := context.Background()
	sid := vn.StringIn("sid", 3, alphaID)
	vn.Assume(len(sid) > 0)
	created := k.now
	idTok := vn.JWT("id", true, 0, "", 0, "", "", vn.Time("exp"), true)
	lastUse := created
	if vn.Choice("created-by-the-login-redirect", 2) == 1 {
		// as in the running service: the login redirect creates the session (login state), the
		// tokens arrive later at the callback, still inside both limits
		err := k.store.SetAuthorizationState(ctx, sid, &AuthorizationState{State: "s", Nonce: "n", RequestedURL: "u", CodeVerifier: "v"})
		vn.Assert("C10/redis-create", err == nil)
		tc := vn.Time("now-callback")
		vn.Assume(!tc.Before(k.now))
		vn.Assume(vn.And(vn.Or(k.abs == 0, tc.Before(created.Add(k.abs).Add(-time.Second))), vn.Or(k.idle == 0, tc.Before(created.Add(k.idle).Add(-time.Second)))))
		k.advance(tc)
		lastUse = tc
		vn.Cover("C10/redis-created-by-login-redirect", true)
	}
	err := k.store.SetTokenResponse(ctx, sid, &TokenResponse{IDToken: idTok, AccessToken: vn.StringIn("access", 2, alphaID)})
	vn.Assert("C10/redis-create", err == nil)
	switch vn.Choice("use-in-between", 3) {
	case 1:
		t1 := vn.Time("now1")
		vn.Assume(!t1.Before(k.now))
		k.advance(t1)
		got, err := k.store.GetTokenResponse(ctx, sid)
		if err == nil && got != nil {
			lastUse = t1
		}
	case 2:
		// a token refresh writes the session again
		t1 := vn.Time("now1")
		vn.Assume(!t1.Before(k.now))
		k.advance(t1)
		got, err := k.store.GetTokenResponse(ctx, sid)
		if err == nil && got != nil {
			lastUse = t1
			vn.Tag("write-after-creation")
			err = k.store.SetTokenResponse(ctx, sid, &TokenResponse{IDToken: idTok, AccessToken: vn.StringIn("access2", 2, alphaID)})
			vn.Assert("C10/redis-rewrite", err == nil)
		}
	}
	t2 := vn.Time("now2")
	vn.Assume(!t2.Before(k.now))
	k.advance(t2)
	got, err := k.store.GetTokenResponse(ctx, sid)
	honoured := err == nil && got != nil
	beyondAbs := vn.And(k.abs > 0, t2.After(created.Add(k.abs).Add(time.Second)))
	beyondIdle := vn.And(k.idle > 0, t2.After(lastUse.Add(k.idle).Add(time.Second)))
	// inside: strictly before both limits, with the second of granularity on the early side
	inside := vn.And(vn.Or(k.abs == 0, t2.Before(created.Add(k.abs).Add(-time.Second))), vn.Or(k.idle == 0, t2.Before(lastUse.Add(k.idle).Add(-time.Second))))
	vn.Cover("C10/redis-beyond-absolute", beyondAbs)
	vn.Cover("C10/redis-beyond-idle", beyondIdle)
	vn.Cover("C10/redis-inside", inside)
	vn.Assert("C10/redis-not-honoured-beyond-absolute-timeout", vn.Implies(beyondAbs, !honoured))
	vn.Assert("C10/redis-not-honoured-beyond-idle-timeout", vn.Implies(beyondIdle, !honoured))
	if lastUse.Equal(created) || true {
		vn.Assert("C10/redis-kept-inside-both-limits", vn.Implies(vn.And(inside, vn.Or(lastUse.Equal(created), vn.And(vn.Or(k.abs == 0, lastUse.Before(created.Add(k.abs).Add(-time.Second))), vn.Or(k.idle == 0, lastUse.Before(created.Add(k.idle).Add(-time.Second)))))), honoured))
	}
}

// expiryOf returns the instant at which the key expires (whole seconds), if it has an expiry.
func (k *kitRedis) expiryOf(key string) (time.Time, bool, bool) {
	if k.model != nil {
		h := k.model.live(key)
		if h == nil {
			return time.Time{}, false, false
		}
		return h.expireAt, h.hasExpiry, true
	}
	if !k.mr.Exists(key) {
		return time.Time{}, false, false
	}
	ttl := k.mr.TTL(key)
	if ttl == 0 {
		return time.Time{}, false, true
	}
	return k.now.Add(ttl).Truncate(time.Second), true, true
}

// VerifC10_RedisExpiryFormula: after every store operation that writes to a live session or
// returns it, the key's expiry is min(created+absolute, now+idle) (the single active limit when
// one is 0, none when both are 0), to the second; in the model additionally time_added is only
// ever written by HSETNX.
func VerifC10_RedisExpiryFormula() {
	k := kitRedisStore()
	defer k.close()
	ctx := context.Background()
	sid := vn.StringIn("sid", 3, alphaID)
	vn.Assume(len(sid) > 0)
	created := k.now
	idTok := vn.JWT("id", true, 0, "", 0, "", "", vn.Time("exp"), true)
	_ = k.store.SetAuthorizationState(ctx, sid, &AuthorizationState{State: "s", Nonce: "n", RequestedURL: "u", CodeVerifier: "v"})
	t1 := vn.Time("now1")
	vn.Assume(!t1.Before(k.now))
	k.advance(t1)
	if k.model != nil {
		k.model.log = nil
	}
	_, _, alive := k.expiryOf(sid)
	op := vn.Choice("op", 4)
	switch op {
	case 0:
		vn.Tag("write-after-creation")
		_ = k.store.SetTokenResponse(ctx, sid, &TokenResponse{IDToken: idTok})
	case 1:
		_, _ = k.store.GetAuthorizationState(ctx, sid)
	case 2:
		vn.Tag("write-after-creation")
		_ = k.store.SetAuthorizationState(ctx, sid, &AuthorizationState{State: "s2", Nonce: "n", RequestedURL: "u", CodeVerifier: "v"})
	default:
		_ = k.store.ClearAuthorizationState(ctx, sid)
	}
	if k.model != nil {
		for i := range k.model.log {
			c := &k.model.log[i]
			if c.name == "HSET" {
				vn.Assert("C10/redis-time-added-only-by-hsetnx", c.field != keyTimeAdded)
			}
		}
	}
	if !alive {
		return
	}
	at, has, exists := k.expiryOf(sid)
	if !exists {
		return
	}
	vn.Cover("C10/redis-formula-checked", true)
	if k.abs == 0 && k.idle == 0 {
		vn.Assert("C10/redis-no-expiry-when-both-disabled", !has)
		return
	}
	vn.Assert("C10/redis-sets-expiry", has)
	if !has {
		return
	}
	want := created.Add(k.abs)
	idleAt := t1.Add(k.idle)
	if k.abs == 0 || (k.idle != 0 && idleAt.Before(want)) {
		want = idleAt
	}
	vn.Assert("C10/redis-expiry-formula", at.Equal(want.Truncate(time.Second)))
}

// armFault makes the k-th Redis command from now on fail (model: the command returns an error
// before taking effect; natively: a miniredis pre-hook answers that command with an error).
func (k *kitRedis) armFault(at int) {
	if k.model != nil {
		k.model.armed, k.model.failAt, k.model.count, k.model.failed = true, at, 0, false
		return
	}
	n := 0
	k.nativeFailed = false
	k.mr.Server().SetPreHook(func(p *mrserver.Peer, cmd string, args ...string) bool {
		i := n
		n++
		if i == at {
			k.nativeFailed = true
			p.WriteError("ERR injected fault")
			return true
		}
		return false
	})
}

func (k *kitRedis) faultHappened() bool {
	if k.model != nil {
		return k.model.failed
	}
	return k.nativeFailed
}

// VerifRedisCommandFailureIsReported: whichever single Redis command of a store operation fails,
// the operation reports an error (the handler's fail-closed behaviour and "logout reports an
// error when the session cannot be removed" rest on this).
func VerifRedisCommandFailureIsReported() {
	k := kitRedisStore()
	defer k.close()
	ctx := context.Background()
	sid := vn.StringIn("sid", 3, alphaID)
	vn.Assume(len(sid) > 0)
	idTok := vn.JWT("id", true, 0, "", 0, "", "", vn.Time("exp"), true)
	// an existing session with tokens and login state
	vn.Assert("kit/seed-tokens", k.store.SetTokenResponse(ctx, sid, &TokenResponse{IDToken: idTok, AccessToken: "a", RefreshToken: "r"}) == nil)
	vn.Assert("kit/seed-state", k.store.SetAuthorizationState(ctx, sid, &AuthorizationState{State: "s", Nonce: "n", RequestedURL: "u", CodeVerifier: "v"}) == nil)
	k.armFault(vn.Choice("failing-command", vn.Bound("redis-commands-per-operation", 8)))
	var err error
	switch vn.Choice("operation", 6) {
	case 0:
		err = k.store.SetTokenResponse(ctx, sid, &TokenResponse{IDToken: idTok})
	case 1:
		_, err = k.store.GetTokenResponse(ctx, sid)
	case 2:
		err = k.store.SetAuthorizationState(ctx, sid, &AuthorizationState{State: "s2", Nonce: "n", RequestedURL: "u", CodeVerifier: "v"})
	case 3:
		_, err = k.store.GetAuthorizationState(ctx, sid)
	case 4:
		err = k.store.ClearAuthorizationState(ctx, sid)
	default:
		err = k.store.RemoveSession(ctx, sid)
	}
	if k.faultHappened() {
		vn.Cover("redis/command-failed", true)
		vn.Assert("redis/command-failure-is-reported", err != nil)
	}
}
