package oidc

import (
	"context"
	"time"

	configv1 "github.com/istio-ecosystem/authservice/config/gen/go/v1"
	oidcv1 "github.com/istio-ecosystem/authservice/config/gen/go/v1/oidc"
	"github.com/istio-ecosystem/authservice/internal"
	"github.com/istio-ecosystem/authservice/internal/vn"
)

func init() {
	verifHarnesses["VerifC15_KeyLookupBeforeStartUpDoesNotPanic"] = VerifC15_KeyLookupBeforeStartUpDoesNotPanic
}

// VerifC15_KeyLookupBeforeStartUpDoesNotPanic: a check that needs the provider's keys may arrive
// before the key provider's run unit has started, and its request context may already be done
// (deadline passed, caller gone). The lookup may wait, or give up with an error; it must not
// crash the process. Run with panic = finding. Natively the lookup runs in a goroutine with a
// time-out (on the unchanged tree it waits for a start-up that never comes) and a panic in it is
// re-raised.
func VerifC15_KeyLookupBeforeStartUpDoesNotPanic() {
	f := &oidcv1.OIDCConfig{ClientId: "a", JwksConfig: &oidcv1.OIDCConfig_JwksFetcher{JwksFetcher: &oidcv1.OIDCConfig_JwksFetcherConfig{
		JwksUri: "https://idp/keys", PeriodicFetchIntervalSec: uint32(vn.Int("fetch-interval-s", 0, 4294967295))}}}
	cfg := &configv1.Config{Chains: []*configv1.FilterChain{{Name: "a", Filters: []*configv1.Filter{{Type: &configv1.Filter_Oidc{Oidc: f}}}}}}
	p := NewJWKSProvider(cfg, internal.NewTLSConfigPool(context.Background()))
	ctx := context.Background()
	if vn.Choice("request-context-already-done", 2) == 1 {
		c, cancel := context.WithCancel(ctx)
		cancel()
		ctx = c
	}
	vn.Cover("C15/key-lookup-before-start-up", true)
	if vn.Symbolic() {
		_, _ = p.Get(ctx, f)
		return
	}
	var crashed interface{}
	done := make(chan struct{})
	go func() {
		defer close(done)
		defer func() { crashed = recover() }()
		_, _ = p.Get(ctx, f)
	}()
	select {
	case <-done:
	case <-time.After(time.Second):
	}
	if crashed != nil {
		panic(crashed)
	}
}
