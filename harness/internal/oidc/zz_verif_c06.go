package oidc

import (
	"math/rand"
	"time"

	"golang.org/x/oauth2"

	"github.com/istio-ecosystem/authservice/internal/vn"
)

func init() {
	verifHarnesses["VerifC06_IdentifiersNotDeterminedByPublicValues"] = VerifC06_IdentifiersNotDeterminedByPublicValues
}

type kitLogin struct {
	sid, nonce, state, verifier string
}

// kitLoginRedirectValues draws the identifiers exactly as redirectToIDP does, from a generator
// built exactly as ExtAuthZFilter.Check builds it.
func kitLoginRedirectValues() kitLogin {
	g := NewRandomGenerator()
	return kitLogin{sid: g.GenerateSessionID(), nonce: g.GenerateNonce(), state: g.GenerateState(), verifier: g.GenerateCodeVerifier()}
}

// VerifC06_IdentifiersNotDeterminedByPublicValues (self-composition): two login redirects whose
// public values agree - state, nonce, code challenge, and the request time to within a window -
// must still be able to differ in the session id (otherwise the cookie is a function of what is
// disclosed through URLs and the provider); likewise a later login's identifiers must not be
// determined by an earlier login's.
func VerifC06_IdentifiersNotDeterminedByPublicValues() {
	if !vn.Symbolic() {
		nativeSeedRecoveryAttack()
		return
	}
	t1, t2 := vn.Time("request-time-1"), vn.Time("request-time-2")
	window := time.Duration(vn.Bound("c06-time-window-ms", 1000)) * time.Millisecond
	vn.Assume(vn.And(!t2.Before(t1.Add(-window)), !t2.After(t1.Add(window))))
	vn.SetNow(t1)
	a := kitLoginRedirectValues()
	vn.SetNow(t2)
	b := kitLoginRedirectValues()
	samePublic := vn.And(a.state == b.state, a.nonce == b.nonce, oauth2.S256ChallengeFromVerifier(a.verifier) == oauth2.S256ChallengeFromVerifier(b.verifier))
	vn.Cover("C06/two-logins", true)
	vn.AssertSat("C06/session-id-determined-by-public-values", vn.And(samePublic, a.sid != b.sid))
	vn.AssertSat("C06/state-determined-by-nonce-and-time", vn.And(a.nonce == b.nonce, a.state != b.state))
	vn.AssertSat("C06/nonce-determined-by-state-and-time", vn.And(a.state == b.state, a.nonce != b.nonce))
	// identifiers issued earlier do not determine later ones: a third login after the first
	vn.SetNow(vn.Time("request-time-3"))
	c := kitLoginRedirectValues()
	vn.AssertSat("C06/later-session-id-determined-by-earlier-identifiers", vn.And(a.sid == b.sid, a.state == b.state, c.sid != a.sid))
}

// nativeSeedRecoveryAttack is the native replay of a "determined" verdict: an attacker who sees
// only the state of a login redirect and knows the request time to within the bracket recovers
// the session id by enumerating math/rand seeds.
func nativeSeedRecoveryAttack() {
	const charset = "abcdefghijklmnopqrstuvwxyzABCDEFGHIJKLMNOPQRSTUVWXYZ0123456789"
	gen := func(r *rand.Rand, n int) string {
		b := make([]byte, n)
		for i := range b {
			b[i] = charset[r.Intn(len(charset))]
		}
		return string(b)
	}
	t0 := time.Now().UnixNano()
	v := kitLoginRedirectValues()
	t1 := time.Now().UnixNano()
	sidR, nonceR, stateR := "", "", ""
	for seed := t0; seed <= t1; seed++ {
		r := rand.New(rand.NewSource(seed))
		sid, nonce, state := gen(r, 64), gen(r, 32), ""
		state = gen(r, 32)
		if state == v.state {
			sidR, nonceR = sid, nonce
		}
		if nonce == v.nonce {
			stateR = state
		}
	}
	if sidR == v.sid {
		vn.Check("C06/session-id-determined-by-public-values", false)
		vn.Check("C06/nonce-determined-by-state-and-time", nonceR != v.nonce)
		vn.Check("C06/state-determined-by-nonce-and-time", stateR != v.state)
		return
	}
	// Second attack, for generators whose whole output follows from a SMALL hidden seed (e.g. a
	// math/rand source, which has fewer than 2^31 distinct streams, seeded from anywhere): among a
	// few hundred thousand logins two share their state, and then they share the session id and
	// the nonce as well -- the identifiers are functions of one another.
	seen := map[string]kitLogin{}
	for i := 0; i < 600000; i++ {
		l := kitLoginRedirectValues()
		if prev, ok := seen[l.state]; ok {
			vn.Check("C06/session-id-determined-by-public-values", prev.sid != l.sid)
			vn.Check("C06/nonce-determined-by-state-and-time", prev.nonce != l.nonce)
			vn.Check("C06/state-determined-by-nonce-and-time", false)
			return
		}
		seen[l.state] = l
	}
}
