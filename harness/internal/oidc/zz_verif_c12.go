package oidc

import (
	"context"
	"sync"
	"time"

	"github.com/istio-ecosystem/authservice/internal/vn"
)

func init() {
	verifHarnesses["VerifC12_StoresImplementTheAbstractMap"] = VerifC12_StoresImplementTheAbstractMap
	verifHarnesses["VerifC12_MemoryLockDiscipline"] = VerifC12_MemoryLockDiscipline
	verifHarnesses["VerifC12_CreationTimeFixedByFirstWrite"] = VerifC12_CreationTimeFixedByFirstWrite
}

// refEntry / refMap: the abstract session map of the property.
type refEntry struct {
	tokens  *TokenResponse
	auth    *AuthorizationState
	created time.Time
}

func sameTokens(a, b *TokenResponse) bool {
	if a == nil || b == nil {
		return a == nil && b == nil
	}
	return vn.And(a.IDToken == b.IDToken, a.AccessToken == b.AccessToken, a.RefreshToken == b.RefreshToken, a.AccessTokenExpiresAt.Equal(b.AccessTokenExpiresAt))
}

func sameAuth(a, b *AuthorizationState) bool {
	if a == nil || b == nil {
		return a == nil && b == nil
	}
	return vn.And(a.State == b.State, a.Nonce == b.Nonce, a.RequestedURL == b.RequestedURL, a.CodeVerifier == b.CodeVerifier)
}

// VerifC12_StoresImplementTheAbstractMap: a bounded history of arbitrary store operations over
// two session ids is applied to the in-memory store, to the Redis store (operations routed to
// either of two store instances sharing one Redis) and to a plain reference map; after every
// operation every read of both ids returns the same in all three.
func VerifC12_StoresImplementTheAbstractMap() {
	ctx := context.Background()
	k := kitRedisStoreNoTimeouts()
	defer k.close()
	clock := &Clock{NowFn: func() time.Time { return k.now }}
	mem := NewMemoryStore(clock, 0, 0)
	ref := map[string]*refEntry{}
	ids := []string{vn.StringIn("sidA", 2, alphaID), vn.StringIn("sidB", 2, alphaID)}
	vn.Assume(vn.And(len(ids[0]) > 0, len(ids[1]) > 0, ids[0] != ids[1]))
	// the history may start from a state in which both ids hold one and the same value (the very
	// same *TokenResponse handed to the store twice): the map holds values, so a later write to one
	// id must not show through the other
	if vn.Choice("start-with-one-value-under-both-ids", 2) == 1 {
		shared := &TokenResponse{IDToken: vn.JWT("seed-id", true, 0, "", 0, "", "", vn.Time("seed-exp"), true), AccessToken: vn.StringIn("seed-access", 2, alphaID)}
		for _, id := range ids {
			e1, e2 := mem.SetTokenResponse(ctx, id, shared), k.stores[0].SetTokenResponse(ctx, id, shared)
			vn.Assert("C12/set-tokens-no-error", vn.And(e1 == nil, e2 == nil))
			cp := *shared
			ref[id] = &refEntry{created: k.now, tokens: &cp}
		}
	}
	nops := vn.Bound("c12-ops", 2)
	for step := 0; step < nops; step++ {
		n := "op" + string(rune('0'+step))
		id := ids[vn.Choice(n+"-id", 2)]
		red := k.stores[vn.Choice(n+"-replica", 2)]
		switch vn.Choice(n, 5) {
		case 0:
			t := &TokenResponse{
				IDToken:              vn.JWT(n+"-id", true, 0, "", 0, "", "", vn.Time(n+"-exp"), true),
				AccessToken:          vn.StringIn(n+"-access", 2, alphaID),
				RefreshToken:         vn.StringIn(n+"-refresh", 2, alphaID),
				AccessTokenExpiresAt: vn.TimeOrZero(n + "-access-exp"),
			}
			e1, e2 := mem.SetTokenResponse(ctx, id, t), red.SetTokenResponse(ctx, id, t)
			vn.Assert("C12/set-tokens-no-error", vn.And(e1 == nil, e2 == nil))
			if ref[id] == nil {
				ref[id] = &refEntry{created: k.now}
			}
			cp := *t
			ref[id].tokens = &cp
		case 1:
			a := &AuthorizationState{State: vn.StringIn(n+"-state", 2, alphaID), Nonce: vn.StringIn(n+"-nonce", 2, alphaID), RequestedURL: vn.StringIn(n+"-url", 2, alphaID), CodeVerifier: vn.StringIn(n+"-verifier", 2, alphaID)}
			vn.Assume(vn.And(a.State != "", a.Nonce != "", a.RequestedURL != "", a.CodeVerifier != ""))
			e1, e2 := mem.SetAuthorizationState(ctx, id, a), red.SetAuthorizationState(ctx, id, a)
			vn.Assert("C12/set-state-no-error", vn.And(e1 == nil, e2 == nil))
			if ref[id] == nil {
				ref[id] = &refEntry{created: k.now}
			}
			ref[id].auth = a
		case 2:
			e1 := mem.ClearAuthorizationState(ctx, id)
			_ = red.ClearAuthorizationState(ctx, id) // on an absent id Redis reports an error; reads are compared below
			vn.Assert("C12/clear-no-error", e1 == nil)
			if ref[id] != nil {
				ref[id].auth = nil
			}
		case 3:
			e1, e2 := mem.RemoveSession(ctx, id), red.RemoveSession(ctx, id)
			vn.Assert("C12/remove-no-error", vn.And(e1 == nil, e2 == nil))
			delete(ref, id)
		default:
			// a read (extends the idle limit only)
			_, _ = mem.GetTokenResponse(ctx, id)
			_, _ = red.GetTokenResponse(ctx, id)
		}
		// clock advance between operations
		t := vn.Time(n + "-then")
		vn.Assume(!t.Before(k.now))
		k.advance(t)
		// observe every id through memory and through the *other* replica
		for i, oid := range ids {
			var wantT *TokenResponse
			var wantA *AuthorizationState
			if e := ref[oid]; e != nil {
				wantT, wantA = e.tokens, e.auth
			}
			obs := k.stores[(i+step)%2]
			mt, err1 := mem.GetTokenResponse(ctx, oid)
			rt, err2 := obs.GetTokenResponse(ctx, oid)
			vn.Assert("C12/read-tokens-no-error", vn.And(err1 == nil, err2 == nil))
			vn.Assert("C12/memory-tokens-equal-the-map", sameTokens(mt, wantT))
			vn.Assert("C12/redis-tokens-equal-the-map", sameTokens(rt, wantT))
			ma, err3 := mem.GetAuthorizationState(ctx, oid)
			ra, err4 := obs.GetAuthorizationState(ctx, oid)
			vn.Assert("C12/read-state-no-error", vn.And(err3 == nil, err4 == nil))
			vn.Assert("C12/memory-state-equals-the-map", sameAuth(ma, wantA))
			vn.Assert("C12/redis-state-equals-the-map", sameAuth(ra, wantA))
		}
	}
	vn.Cover("C12/history-explored", true)
}

type kitRedis2 struct {
	*kitRedis
	stores [2]SessionStore
}

func kitRedisStoreNoTimeouts() *kitRedis2 {
	k := &kitRedis{}
	k.now = vn.Time("now0")
	clock := &Clock{NowFn: func() time.Time { return k.now }}
	client := kitRedisClient(k)
	s0, err0 := NewRedisStore(clock, client, 0, 0)
	s1, err1 := NewRedisStore(clock, client, 0, 0)
	vn.Assert("kit/redis-stores-created", vn.And(err0 == nil, err1 == nil))
	k.store = s0
	return &kitRedis2{kitRedis: k, stores: [2]SessionStore{s0, s1}}
}

// VerifC12_MemoryLockDiscipline: every operation of the in-memory store touches the session map
// and the session objects only while holding the store's mutex, and releases it before returning.
func VerifC12_MemoryLockDiscipline() {
	k := kitMemory()
	ctx := context.Background()
	id := k.sid
	if vn.Choice("other-id", 2) == 1 {
		id = vn.StringIn("other", 3, alphaID)
	}
	op := vn.Choice("op", 7)
	run := func() {
		switch op {
		case 0:
			_ = k.m.SetTokenResponse(ctx, id, &TokenResponse{IDToken: "x"})
		case 1:
			_, _ = k.m.GetTokenResponse(ctx, id)
		case 2:
			_ = k.m.SetAuthorizationState(ctx, id, &AuthorizationState{State: "s"})
		case 3:
			_, _ = k.m.GetAuthorizationState(ctx, id)
		case 4:
			_ = k.m.ClearAuthorizationState(ctx, id)
		case 5:
			_ = k.m.RemoveSession(ctx, id)
		default:
			_ = k.m.RemoveAllExpired(ctx)
		}
	}
	if vn.Symbolic() {
		vn.Watch(k.m.sessions)
		vn.Watch(k.s)
		run()
	} else {
		// native twin of the lockset audit: the same operation from two goroutines under the race
		// detector (the driver replays lock-discipline findings with -race)
		var wg sync.WaitGroup
		for i := 0; i < 4; i++ {
			wg.Add(1)
			go func() { defer wg.Done(); run() }()
		}
		wg.Wait()
	}
	vn.Unwatch()
	vn.Cover("C12/lock-audit", true)
	vn.Assert("C12/mutex-released-on-return", !vn.MutexHeld(&k.m.mu))
}

// VerifC12_CreationTimeFixedByFirstWrite: the abstract map's "created" member. Both stores are
// built with an absolute session timeout A (idle timeout off), which makes the creation time
// observable: after any bounded history of operations and clock advances an id is readable
// exactly while now < created + A, where created is the instant of the first write since the id
// was last absent (removed, expired or never written) -- operations that write nothing (a read,
// clearing the login state of an absent id, a removal) create nothing and later writes do not
// move it. Instants within two seconds of a limit are left out (granularity of Redis expiry).
func VerifC12_CreationTimeFixedByFirstWrite() {
	ctx := context.Background()
	k := &kitRedis{}
	k.abs = time.Duration(vn.Int("absolute-timeout-s", 1, 4294967295)) * time.Second
	k.now = vn.Time("now0")
	clock := &Clock{NowFn: func() time.Time { return k.now }}
	client := kitRedisClient(k)
	defer k.close()
	red, err := NewRedisStore(clock, client, k.abs, 0)
	vn.Assert("kit/redis-store-created", err == nil)
	mem := NewMemoryStore(clock, k.abs, 0)
	id := vn.StringIn("sid", 2, alphaID)
	vn.Assume(len(id) > 0)
	var ref *refEntry
	nops := vn.Bound("c12-ops", 2) + 1
	for step := 0; step < nops; step++ {
		n := "op" + string(rune('0'+step))
		if ref != nil && !k.now.Before(ref.created.Add(k.abs)) {
			ref = nil // expired: the id is absent again
		}
		switch vn.Choice(n, 5) {
		case 0:
			t := &TokenResponse{IDToken: vn.JWT(n+"-id", true, 0, "", 0, "", "", vn.Time(n+"-exp"), true), AccessToken: vn.StringIn(n+"-access", 2, alphaID)}
			e1, e2 := mem.SetTokenResponse(ctx, id, t), red.SetTokenResponse(ctx, id, t)
			vn.Assert("C12/set-tokens-no-error", vn.And(e1 == nil, e2 == nil))
			if ref == nil {
				ref = &refEntry{created: k.now}
			}
			ref.tokens = t
		case 1:
			a := &AuthorizationState{State: vn.StringIn(n+"-state", 2, alphaID), Nonce: "n", RequestedURL: "u", CodeVerifier: "v"}
			vn.Assume(a.State != "")
			e1, e2 := mem.SetAuthorizationState(ctx, id, a), red.SetAuthorizationState(ctx, id, a)
			vn.Assert("C12/set-state-no-error", vn.And(e1 == nil, e2 == nil))
			if ref == nil {
				ref = &refEntry{created: k.now}
			}
			ref.auth = a
		case 2:
			_ = mem.ClearAuthorizationState(ctx, id)
			_ = red.ClearAuthorizationState(ctx, id)
			if ref != nil {
				ref.auth = nil
			}
		case 3:
			e1, e2 := mem.RemoveSession(ctx, id), red.RemoveSession(ctx, id)
			vn.Assert("C12/remove-no-error", vn.And(e1 == nil, e2 == nil))
			ref = nil
		default:
			_, _ = mem.GetTokenResponse(ctx, id)
			_, _ = red.GetTokenResponse(ctx, id)
		}
		t := vn.Time(n + "-then")
		vn.Assume(!t.Before(k.now))
		k.advance(t)
		var wantT *TokenResponse
		var wantA *AuthorizationState
		if ref != nil {
			limit := ref.created.Add(k.abs)
			vn.Assume(vn.Or(k.now.Before(limit.Add(-2*time.Second)), k.now.After(limit.Add(2*time.Second))))
			if k.now.Before(limit) {
				wantT, wantA = ref.tokens, ref.auth
				vn.Cover("C12/created-observed-live", step > 0)
			} else {
				vn.Cover("C12/created-observed-expired", true)
			}
		}
		mt, err1 := mem.GetTokenResponse(ctx, id)
		rt, err2 := red.GetTokenResponse(ctx, id)
		vn.Assert("C12/read-tokens-no-error", vn.And(err1 == nil, err2 == nil))
		vn.Assert("C12/memory-created-fixed-by-first-write:tokens", sameTokens(mt, wantT))
		vn.Assert("C12/redis-created-fixed-by-first-write:tokens", sameTokens(rt, wantT))
		ma, err3 := mem.GetAuthorizationState(ctx, id)
		ra, err4 := red.GetAuthorizationState(ctx, id)
		vn.Assert("C12/read-state-no-error", vn.And(err3 == nil, err4 == nil))
		vn.Assert("C12/memory-created-fixed-by-first-write:state", sameAuth(ma, wantA))
		vn.Assert("C12/redis-created-fixed-by-first-write:state", sameAuth(ra, wantA))
	}
}
