package oidc

import (
	"context"
	"io"
	"net/http"
	"strings"
	"sync"

	configv1 "github.com/istio-ecosystem/authservice/config/gen/go/v1"
	oidcv1 "github.com/istio-ecosystem/authservice/config/gen/go/v1/oidc"
	"github.com/istio-ecosystem/authservice/internal/vn"
)

func init() {
	verifHarnesses["VerifC16_DiscoveryCache"] = VerifC16_DiscoveryCache
	verifHarnesses["VerifC16_GeneratorKeepsNoUnsynchronisedState"] = VerifC16_GeneratorKeepsNoUnsynchronisedState
	verifHarnesses["VerifC16_StaticKeyLookupKeepsNoUnsynchronisedState"] = VerifC16_StaticKeyLookupKeepsNoUnsynchronisedState
}

type kitDiscoveryIdP struct{ body string }

func (d *kitDiscoveryIdP) RoundTrip(*http.Request) (*http.Response, error) {
	return &http.Response{StatusCode: 200, Status: "200 OK", Body: io.NopCloser(strings.NewReader(d.body))}, nil
}

func kitDiscoveryDoc() string {
	doc := vn.NewJSON("discovery", 3)
	vn.JSONStr(doc, "authorization_endpoint", 1, vn.StringIn("authorization-endpoint", 3, alphaID))
	vn.JSONStr(doc, "token_endpoint", 1, vn.StringIn("token-endpoint", 3, alphaID))
	vn.JSONStr(doc, "jwks_uri", 1, vn.StringIn("jwks-uri", 3, alphaID))
	vn.JSONStr(doc, "end_session_endpoint", 1, vn.StringIn("end-session-endpoint", 3, alphaID))
	return vn.JSONText(doc)
}

// VerifC16_DiscoveryCache (lockset audit): every check with a discovery URI goes through
// GetWellKnownConfig; all its accesses to the process-wide cache must happen under a lock.
// Natively the same calls run from several goroutines under the race detector.
func VerifC16_DiscoveryCache() {
	client := &http.Client{Transport: &kitDiscoveryIdP{body: kitDiscoveryDoc()}}
	url := "https://idp/" + vn.StringIn("issuer", 2, alphaID)
	call := func(u string) { _, _ = GetWellKnownConfig(client, u) }
	if vn.Symbolic() {
		vn.Watch(wellKnownConfigs)
		call(url) // miss: fetch and insert
		call(url) // hit
		vn.Unwatch()
		vn.Cover("C16/discovery-cache-audited", true)
		return
	}
	var wg sync.WaitGroup
	for i := 0; i < 8; i++ {
		wg.Add(1)
		u := url + string(rune('a'+i%2))
		go func() { defer wg.Done(); call(u); call(u) }()
	}
	wg.Wait()
}

// VerifC16_GeneratorKeepsNoUnsynchronisedState (shared-write audit): one generator per filter
// serves every request goroutine of that filter; drawing identifiers must not write, without a
// lock, to anything that outlives the call (a scratch buffer, a counter, a cached value).
// Natively: many goroutines draw from one generator under the race detector.
func VerifC16_GeneratorKeepsNoUnsynchronisedState() {
	g := NewRandomGenerator()
	if vn.Symbolic() {
		vn.WatchSharedWrites()
		_ = g.GenerateSessionID()
		_ = g.GenerateNonce()
		_ = g.GenerateState()
		_ = g.GenerateCodeVerifier()
		vn.Unwatch()
		vn.Cover("C16/generator-audited", true)
		return
	}
	var wg sync.WaitGroup
	for i := 0; i < 8; i++ {
		wg.Add(1)
		go func() {
			defer wg.Done()
			for j := 0; j < 200; j++ {
				_ = g.GenerateSessionID()
				_ = g.GenerateNonce()
				_ = g.GenerateState()
				_ = g.GenerateCodeVerifier()
			}
		}()
	}
	wg.Wait()
}

// VerifC16_StaticKeyLookupKeepsNoUnsynchronisedState (shared-write audit): the one key-set
// provider of the process serves the token validation of every check of every filter. Looking up
// a statically configured key set (any of two documents or an unparsable one, twice in a row, for
// one or two filters) must not write, without a lock, to anything that outlives the call -- a
// parse cache, a "last result", a counter. Natively: many goroutines look keys up on one provider
// under the race detector.
func VerifC16_StaticKeyLookupKeepsNoUnsynchronisedState() {
	docs := []string{vn.JWKSDoc("good"), vn.JWKSDoc("other"), "not a jwks"}
	p := NewJWKSProvider(&configv1.Config{}, nil)
	ctx := context.Background()
	if vn.Symbolic() {
		a := &oidcv1.OIDCConfig{ClientId: "a", JwksConfig: &oidcv1.OIDCConfig_Jwks{Jwks: docs[vn.Choice("a-jwks", 3)]}}
		b := &oidcv1.OIDCConfig{ClientId: "b", JwksConfig: &oidcv1.OIDCConfig_Jwks{Jwks: docs[vn.Choice("b-jwks", 3)]}}
		vn.WatchSharedWrites()
		_, _ = p.Get(ctx, a)
		_, _ = p.Get(ctx, b)
		_, _ = p.Get(ctx, a)
		vn.Unwatch()
		vn.Cover("C16/static-key-lookup-audited", true)
		return
	}
	var wg sync.WaitGroup
	for i := 0; i < 8; i++ {
		wg.Add(1)
		f := &oidcv1.OIDCConfig{ClientId: "a", JwksConfig: &oidcv1.OIDCConfig_Jwks{Jwks: docs[i%3]}}
		go func() {
			defer wg.Done()
			for j := 0; j < 50; j++ {
				_, _ = p.Get(ctx, f)
			}
		}()
	}
	wg.Wait()
}
