package oidc

import (
	"io"
	"net/http"
	"strings"
	"sync"

	"github.com/istio-ecosystem/authservice/internal/vn"
)

func init() {
	verifHarnesses["VerifC16_DiscoveryCache"] = VerifC16_DiscoveryCache
}

type kitDiscoveryIdP struct{ body string }

func (d *kitDiscoveryIdP) RoundTrip(*http.Request) (*http.Response, error) {
	return &http.Response{StatusCode: 200, Status: "200 OK", Body: io.NopCloser(strings.NewReader(d.body))}, nil
}

func kitDiscoveryDoc() string {
	doc := vn.NewJSON("discovery", 3)
	vn.JSONStr(doc, "authorization_endpoint", 1, vn.StringIn("authorization-endpoint", 3, alphaID))
	vn.JSONStr(doc, "token_endpoint", 1, vn.StringIn("token-endpoint", 3, alphaID))
	vn.JSONStr(doc, "jwks_uri", 1, vn.StringIn("jwks-uri", 3, alphaID))
	vn.JSONStr(doc, "end_session_endpoint", 1, vn.StringIn("end-session-endpoint", 3, alphaID))
	return vn.JSONText(doc)
}

// VerifC16_DiscoveryCache (lockset audit): every check with a discovery URI goes through
// GetWellKnownConfig; all its accesses to the process-wide cache must happen under a lock.
// Natively the same calls run from several goroutines under the race detector.
func VerifC16_DiscoveryCache() {
	client := &http.Client{Transport: &kitDiscoveryIdP{body: kitDiscoveryDoc()}}
	url := "https://idp/" + vn.StringIn("issuer", 2, alphaID)
	call := func(u string) { _, _ = GetWellKnownConfig(client, u) }
	if vn.Symbolic() {
		vn.Watch(wellKnownConfigs)
		call(url) // miss: fetch and insert
		call(url) // hit
		vn.Unwatch()
		vn.Cover("C16/discovery-cache-audited", true)
		return
	}
	var wg sync.WaitGroup
	for i := 0; i < 8; i++ {
		wg.Add(1)
		u := url + string(rune('a'+i%2))
		go func() { defer wg.Done(); call(u); call(u) }()
	}
	wg.Wait()
}
