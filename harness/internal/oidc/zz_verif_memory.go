package oidc

// Verification harnesses for the session stores (injected by overlay).

import (
	"context"
	"time"

	"github.com/istio-ecosystem/authservice/internal/vn"
)

var verifHarnesses = map[string]func(){
	"VerifC10_MemoryRead":     VerifC10_MemoryRead,
	"VerifC10_MemoryWrite":    VerifC10_MemoryWrite,
	"VerifC12_MemorySimulation": VerifC12_MemorySimulation,
}

const alphaID = "abcdefghijklmnopqrstuvwxyzABCDEFGHIJKLMNOPQRSTUVWXYZ0123456789"

type kitMem struct {
	m          *memoryStore
	now        time.Time
	abs, idle  time.Duration
	sid        string
	s          *session
	added, acc time.Time
}

// kitMemory builds a memory store with arbitrary timeouts (whole seconds, full uint32 range,
// including 0 = disabled) holding one session with arbitrary added <= accessed <= now.
func kitMemory() *kitMem {
	k := &kitMem{}
	k.abs = time.Duration(vn.Int("absolute-timeout-s", 0, 4294967295)) * time.Second
	k.idle = time.Duration(vn.Int("idle-timeout-s", 0, 4294967295)) * time.Second
	k.now = vn.Time("now")
	clock := &Clock{NowFn: func() time.Time { return k.now }}
	k.m = NewMemoryStore(clock, k.abs, k.idle).(*memoryStore)
	k.sid = vn.StringIn("sid", 3, alphaID)
	k.added = vn.Time("added")
	k.acc = vn.Time("accessed")
	vn.Assume(vn.And(!k.acc.Before(k.added), !k.now.Before(k.acc)))
	k.s = &session{added: k.added, accessed: k.acc}
	switch vn.Choice("content", 3) {
	case 0:
		k.s.tokenResponse = &TokenResponse{IDToken: vn.StringIn("id-token", 2, alphaID), AccessToken: vn.StringIn("access-token", 2, alphaID)}
	case 1:
		k.s.authorizationState = &AuthorizationState{State: vn.StringIn("state", 2, alphaID), Nonce: vn.StringIn("nonce", 2, alphaID)}
	default:
		k.s.tokenResponse = &TokenResponse{IDToken: vn.StringIn("id-token", 2, alphaID)}
		k.s.authorizationState = &AuthorizationState{State: vn.StringIn("state", 2, alphaID)}
	}
	k.m.sessions[k.sid] = k.s
	return k
}

// beyond: later than the limit by more than the one-second granularity the property allows.
func (k *kitMem) beyondAbsolute() bool {
	return vn.And(k.abs > 0, k.now.After(k.added.Add(k.abs).Add(time.Second)))
}
func (k *kitMem) beyondIdle() bool {
	return vn.And(k.idle > 0, k.now.After(k.acc.Add(k.idle).Add(time.Second)))
}
func (k *kitMem) insideBoth() bool {
	return vn.And(vn.Or(k.abs == 0, !k.now.After(k.added.Add(k.abs))), vn.Or(k.idle == 0, !k.now.After(k.acc.Add(k.idle))))
}

// VerifC10_MemoryRead: a read at `now` does not honour a session beyond either limit, and
// returns (and keeps) a session inside both limits without touching its creation time. No
// clean-up routine is assumed to have run: the pre-state is arbitrary.
func VerifC10_MemoryRead() {
	k := kitMemory()
	ctx := context.Background()
	var got bool
	if vn.Choice("read-op", 2) == 0 {
		t, err := k.m.GetTokenResponse(ctx, k.sid)
		vn.Assert("C10/read-no-error", err == nil)
		got = t != nil
		if k.s.tokenResponse == nil {
			return
		}
	} else {
		a, err := k.m.GetAuthorizationState(ctx, k.sid)
		vn.Assert("C10/read-no-error", err == nil)
		got = a != nil
		if k.s.authorizationState == nil {
			return
		}
	}
	vn.Cover("C10/beyond-absolute", k.beyondAbsolute())
	vn.Cover("C10/beyond-idle", k.beyondIdle())
	vn.Cover("C10/inside", k.insideBoth())
	vn.Assert("C10/memory-not-honoured-beyond-absolute-timeout", vn.Implies(k.beyondAbsolute(), !got))
	vn.Assert("C10/memory-not-honoured-beyond-idle-timeout", vn.Implies(k.beyondIdle(), !got))
	vn.Assert("C10/memory-kept-inside-both-limits", vn.Implies(k.insideBoth(), got))
	if s := k.m.sessions[k.sid]; s != nil && got {
		vn.Assert("C10/memory-creation-time-fixed", s.added.Equal(k.added))
		vn.Assert("C10/memory-activity-extends-idle-only", s.accessed.Equal(k.now))
	}
}

// VerifC10_MemoryWrite: a write to a session that is beyond a limit does not revive it with its
// old creation time (it starts a new session), and a write inside the limits keeps `added`.
func VerifC10_MemoryWrite() {
	k := kitMemory()
	ctx := context.Background()
	switch vn.Choice("write-op", 3) {
	case 0:
		_ = k.m.SetTokenResponse(ctx, k.sid, &TokenResponse{IDToken: "n"})
	case 1:
		_ = k.m.SetAuthorizationState(ctx, k.sid, &AuthorizationState{State: "n"})
	default:
		_ = k.m.ClearAuthorizationState(ctx, k.sid)
	}
	s := k.m.sessions[k.sid]
	if s == nil {
		return
	}
	vn.Assert("C10/memory-write-inside-keeps-creation-time", vn.Implies(k.insideBoth(), s.added.Equal(k.added)))
	vn.Assert("C10/memory-write-does-not-revive-expired-session", vn.Implies(vn.Or(k.beyondAbsolute(), k.beyondIdle()), vn.Or(!s.added.Equal(k.added), k.added.Equal(k.now))))
}

func VerifC12_MemorySimulation() {}
