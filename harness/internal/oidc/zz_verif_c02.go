package oidc

import (
	"context"
	"encoding/json"
	"net/http"
	"net/http/httptest"
	"sync"
	"time"

	"github.com/lestrrat-go/jwx/v2/jwk"

	"github.com/istio-ecosystem/authservice/internal"

	configv1 "github.com/istio-ecosystem/authservice/config/gen/go/v1"
	oidcv1 "github.com/istio-ecosystem/authservice/config/gen/go/v1/oidc"
	"github.com/istio-ecosystem/authservice/internal/vn"
)

func init() {
	verifHarnesses["VerifC02_KeySourceHonoursTheFiltersConfiguration"] = VerifC02_KeySourceHonoursTheFiltersConfiguration
	verifHarnesses["VerifC02_FetchedKeySetIsTheFiltersOwnAndKeptCurrent"] = VerifC02_FetchedKeySetIsTheFiltersOwnAndKeptCurrent
}

// VerifC02_KeySourceHonoursTheFiltersConfiguration: the real key-set provider (one per process,
// shared by all filters), asked for several filters with static key sets in any order, returns
// for each filter the key set of THAT filter's configuration (or an error for an unparsable
// document) -- "valid signature under the filter's configured key set" is only as good as this.
func VerifC02_KeySourceHonoursTheFiltersConfiguration() {
	docs := []string{vn.JWKSDoc("good"), vn.JWKSDoc("other"), "not a jwks"}
	mk := func(n string) (*oidcv1.OIDCConfig, int) {
		k := vn.Choice(n+"-jwks", 3)
		return &oidcv1.OIDCConfig{ClientId: n, JwksConfig: &oidcv1.OIDCConfig_Jwks{Jwks: docs[k]}}, k
	}
	a, ka := mk("a")
	b, kb := mk("b")
	p := NewJWKSProvider(&configv1.Config{}, nil)
	ctx := context.Background()
	check := func(label string, cfg *oidcv1.OIDCConfig, k int) {
		got, err := p.Get(ctx, cfg)
		if k == 2 {
			vn.Assert("C02/unparsable-key-set-is-an-error:"+label, err != nil)
			return
		}
		want, _ := jwk.Parse([]byte(docs[k]))
		vn.Assert("C02/key-set-is-the-filter's-own:"+label, vn.And(err == nil, vn.SameKeySet(got, want)))
	}
	if vn.Choice("order", 2) == 0 {
		check("first", a, ka)
		check("second", b, kb)
		check("first-again", a, ka)
	} else {
		check("first", b, kb)
		check("second", a, ka)
		check("first-again", b, kb)
	}
	vn.Cover("C02/key-source-audited", true)
}

// VerifC02_FetchedKeySetIsTheFiltersOwnAndKeptCurrent: the fetcher arm of the real key-set
// provider. "A valid signature under the filter's configured key set" presupposes that the set in
// use is the one published at THAT filter's jwks_uri and that it is no staler than the filter's
// periodic_fetch_interval_sec (default 1200 s): a key the provider has withdrawn stops validating
// tokens within that interval whatever caching headers the endpoint sends.
//
// Symbolically the jwx auto-refresh cache is a contract stub (see the engine's jwk.Cache model):
// the harness runs the real start-up (ServeContext) and the real Get for two filters in either
// order and checks what the provider registers with the cache -- each filter's own URL, with
// WithRefreshInterval(exactly its interval) and no header-driven schedule, through an HTTP client,
// polled with a window no longer than any filter's interval -- and that each filter is handed the
// set fetched from its own URL. Natively (replay) the same label is decided by the real cache
// against a real endpoint that sends Cache-Control: max-age=3600 and then replaces its key.
func VerifC02_FetchedKeySetIsTheFiltersOwnAndKeptCurrent() {
	if !vn.Symbolic() {
		nativeC02FetchedKeySetKeptCurrent()
		return
	}
	mk := func(n, uri string) *oidcv1.OIDCConfig {
		return &oidcv1.OIDCConfig{ClientId: n, JwksConfig: &oidcv1.OIDCConfig_JwksFetcher{JwksFetcher: &oidcv1.OIDCConfig_JwksFetcherConfig{
			JwksUri: uri, PeriodicFetchIntervalSec: uint32(vn.Int(n+"-fetch-interval-s", 0, 4294967295))}}}
	}
	a, b := mk("a", "https://idp-a/keys"), mk("b", "https://idp-b/keys")
	cfg := &configv1.Config{Chains: []*configv1.FilterChain{
		{Name: "a", Filters: []*configv1.Filter{{Type: &configv1.Filter_Oidc{Oidc: a}}}},
		{Name: "b", Filters: []*configv1.Filter{{Type: &configv1.Filter_Oidc{Oidc: b}}}},
	}}
	ctx := context.Background()
	p := NewJWKSProvider(cfg, internal.NewTLSConfigPool(ctx))
	stopped, stop := context.WithCancel(ctx)
	stop()
	_ = p.ServeContext(stopped) // start-up: creates the cache and signals readiness, then returns at once
	want := func(f *oidcv1.OIDCConfig) time.Duration {
		if s := f.GetJwksFetcher().GetPeriodicFetchIntervalSec(); s != 0 {
			return time.Duration(s) * time.Second
		}
		return 1200 * time.Second
	}
	check := func(label string, f *oidcv1.OIDCConfig) {
		uri := f.GetJwksFetcher().GetJwksUri()
		got, err := p.Get(ctx, f)
		vn.Assert("C02/fetched-key-set-is-the-filter's-own:"+label, vn.And(err == nil, vn.SameKeySet(got, vn.FetchedKeySet(uri))))
		iv, has := vn.JWKCacheOption(p.cache, uri, "RefreshInterval")
		_, headerDriven := vn.JWKCacheOption(p.cache, uri, "MinRefreshInterval")
		_, client := vn.JWKCacheOption(p.cache, uri, "HTTPClient")
		window, hasWindow := vn.JWKCacheOption(p.cache, "", "RefreshWindow")
		vn.Assert("C02/fetched-key-set-kept-current:"+label, vn.And(has, iv == want(f), !headerDriven, client, hasWindow, window <= want(f), window > 0))
	}
	if vn.Choice("order", 2) == 0 {
		check("first", a)
		check("second", b)
		check("first-again", a)
	} else {
		check("first", b)
		check("second", a)
		check("first-again", b)
	}
	vn.Cover("C02/fetcher-audited", true)
}

// nativeC02FetchedKeySetKeptCurrent: the real provider, the real jwx cache, a real endpoint with
// long-lived caching headers; interval 1 s; the published key is replaced; within a few intervals
// the provider must hand out the new key and no longer the withdrawn one.
func nativeC02FetchedKeySetKeptCurrent() {
	var mu sync.Mutex
	doc := vn.JWKSDoc("good")
	srv := httptest.NewServer(http.HandlerFunc(func(w http.ResponseWriter, r *http.Request) {
		mu.Lock()
		defer mu.Unlock()
		w.Header().Set("Cache-Control", "max-age=3600")
		w.Header().Set("Content-Type", "application/json")
		_, _ = w.Write([]byte(doc))
	}))
	defer srv.Close()
	f := &oidcv1.OIDCConfig{ClientId: "a", JwksConfig: &oidcv1.OIDCConfig_JwksFetcher{JwksFetcher: &oidcv1.OIDCConfig_JwksFetcherConfig{JwksUri: srv.URL, PeriodicFetchIntervalSec: 1}}}
	cfg := &configv1.Config{Chains: []*configv1.FilterChain{{Name: "a", Filters: []*configv1.Filter{{Type: &configv1.Filter_Oidc{Oidc: f}}}}}}
	ctx, cancel := context.WithCancel(context.Background())
	defer cancel()
	p := NewJWKSProvider(cfg, internal.NewTLSConfigPool(ctx))
	go func() { _ = p.ServeContext(ctx) }()
	same := func(set jwk.Set, name string) bool {
		jb, _ := json.Marshal(set)
		return string(jb) == vn.JWKSDoc(name)
	}
	got, err := p.Get(ctx, f)
	vn.Assert("C02/fetched-key-set-is-the-filter's-own:first", vn.And(err == nil, got != nil && same(got, "good")))
	mu.Lock()
	doc = vn.JWKSDoc("other")
	mu.Unlock()
	current := false
	for i := 0; i < 12 && !current; i++ {
		time.Sleep(500 * time.Millisecond)
		got, err = p.Get(ctx, f)
		current = err == nil && got != nil && same(got, "other")
	}
	vn.Assert("C02/fetched-key-set-kept-current:first", current)
	vn.Cover("C02/fetcher-audited", true)
}
