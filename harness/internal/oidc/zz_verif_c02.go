package oidc

import (
	"context"

	"github.com/lestrrat-go/jwx/v2/jwk"

	configv1 "github.com/istio-ecosystem/authservice/config/gen/go/v1"
	oidcv1 "github.com/istio-ecosystem/authservice/config/gen/go/v1/oidc"
	"github.com/istio-ecosystem/authservice/internal/vn"
)

func init() {
	verifHarnesses["VerifC02_KeySourceHonoursTheFiltersConfiguration"] = VerifC02_KeySourceHonoursTheFiltersConfiguration
}

// VerifC02_KeySourceHonoursTheFiltersConfiguration: the real key-set provider (one per process,
// shared by all filters), asked for several filters with static key sets in any order, returns
// for each filter the key set of THAT filter's configuration (or an error for an unparsable
// document) -- "valid signature under the filter's configured key set" is only as good as this.
func VerifC02_KeySourceHonoursTheFiltersConfiguration() {
	docs := []string{vn.JWKSDoc("good"), vn.JWKSDoc("other"), "not a jwks"}
	mk := func(n string) (*oidcv1.OIDCConfig, int) {
		k := vn.Choice(n+"-jwks", 3)
		return &oidcv1.OIDCConfig{ClientId: n, JwksConfig: &oidcv1.OIDCConfig_Jwks{Jwks: docs[k]}}, k
	}
	a, ka := mk("a")
	b, kb := mk("b")
	p := NewJWKSProvider(&configv1.Config{}, nil)
	ctx := context.Background()
	check := func(label string, cfg *oidcv1.OIDCConfig, k int) {
		got, err := p.Get(ctx, cfg)
		if k == 2 {
			vn.Assert("C02/unparsable-key-set-is-an-error:"+label, err != nil)
			return
		}
		want, _ := jwk.Parse([]byte(docs[k]))
		vn.Assert("C02/key-set-is-the-filter's-own:"+label, vn.And(err == nil, vn.SameKeySet(got, want)))
	}
	if vn.Choice("order", 2) == 0 {
		check("first", a, ka)
		check("second", b, kb)
		check("first-again", a, ka)
	} else {
		check("first", b, kb)
		check("second", a, ka)
		check("first-again", b, kb)
	}
	vn.Cover("C02/key-source-audited", true)
}
