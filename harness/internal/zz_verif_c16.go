package internal

import (
	"context"
	"sync"
	"time"

	oidcv1 "github.com/istio-ecosystem/authservice/config/gen/go/v1/oidc"
	"github.com/istio-ecosystem/authservice/internal/vn"
)

func init() {
	verifHarnesses["VerifC16_CAReloadWritesPooledConfig"] = VerifC16_CAReloadWritesPooledConfig
	verifHarnesses["VerifC16_PoolMapUnderLock"] = VerifC16_PoolMapUnderLock
	verifHarnesses["VerifC16_NoLockLeftHeld"] = VerifC16_NoLockLeftHeld
}

// VerifC16_CAReloadWritesPooledConfig (lockset audit): the CA reload callback rewrites RootCAs of
// the pooled tls.Config that HTTP clients of running checks are using; that write must be
// synchronised with them. Natively: updateCA and readers in goroutines under -race.
func VerifC16_CAReloadWritesPooledConfig() {
	pool := NewTLSConfigPool(context.Background()).(*tlsConfigPool)
	cfg := &oidcv1.OIDCConfig{TrustedCaConfig: &oidcv1.OIDCConfig_TrustedCertificateAuthority{TrustedCertificateAuthority: verifCAa}}
	tc, err := pool.LoadTLSConfig(cfg)
	if err != nil || tc == nil {
		return
	}
	id := encodeConfig(cfg).hash()
	if vn.Symbolic() {
		vn.WatchWrites(tc)
		vn.Tag("updateCA-writes-pooled-tls.Config")
		pool.updateCA(id, []byte(verifCAb))
		vn.Unwatch()
		vn.Cover("C16/ca-reload-audited", true)
		return
	}
	var wg sync.WaitGroup
	for i := 0; i < 4; i++ {
		wg.Add(2)
		go func() { defer wg.Done(); pool.updateCA(id, []byte(verifCAb)) }()
		go func() { defer wg.Done(); _ = tc.RootCAs }()
	}
	wg.Wait()
}

// VerifC16_PoolMapUnderLock (lockset audit): every access to the pool's configuration map and to
// the file watcher's map happens under their mutexes, and both are free on return.
func VerifC16_PoolMapUnderLock() {
	pool := NewTLSConfigPool(context.Background()).(*tlsConfigPool)
	k := kitTLSSettings("a")
	vn.Watch(pool.configs)
	vn.Watch(pool.caWatcher.watchers)
	_, _ = pool.LoadTLSConfig(k.cfg)
	_, _ = pool.LoadTLSConfig(k.cfg)
	vn.Unwatch()
	vn.Cover("C16/pool-audited", true)
	vn.Assert("C16/pool-mutex-released", !vn.MutexHeld(&pool.caWatcher.mu))
}

// VerifC16_NoLockLeftHeld ("without deadlock"): whatever the TLS settings (valid, invalid or
// unreadable CA, inline or file, any refresh interval) and whichever entry point ran last -- a
// load, a repeated load, the CA-reload callback for a pooled id or for an id that never made it
// into the pool (its first load failed, the watcher kept running) -- no mutex of the pool or of
// the file watcher is still held when the call returns; a lock left behind blocks every later
// check. Natively the same sequence is followed by a liveness probe with a time-out.
func VerifC16_NoLockLeftHeld() {
	pool := NewTLSConfigPool(context.Background()).(*tlsConfigPool)
	k := kitTLSSettings("a")
	_, _ = pool.LoadTLSConfig(k.cfg)
	vn.Assert("C16/no-lock-left-held:after-load", vn.LocksHeld() == 0)
	_, _ = pool.LoadTLSConfig(k.cfg)
	vn.Assert("C16/no-lock-left-held:after-second-load", vn.LocksHeld() == 0)
	id := encodeConfig(k.cfg).hash()
	if vn.Choice("reload-for-unknown-id", 2) == 1 {
		id = "never-pooled"
	}
	pool.updateCA(id, []byte(kitPEM("reloaded-ca")))
	vn.Cover("C16/reload-callback-ran", true)
	if vn.Symbolic() {
		vn.Assert("C16/no-lock-left-held:after-reload", vn.LocksHeld() == 0)
		return
	}
	done := make(chan struct{})
	go func() {
		defer close(done)
		other := &oidcv1.OIDCConfig{TrustedCaConfig: &oidcv1.OIDCConfig_TrustedCertificateAuthority{TrustedCertificateAuthority: verifCAb}}
		_, _ = pool.LoadTLSConfig(other) // takes the write lock to store a new entry
		_, _ = pool.LoadTLSConfig(other)
	}()
	alive := false
	select {
	case <-done:
		alive = true
	case <-time.After(3 * time.Second):
	}
	vn.Assert("C16/no-lock-left-held:after-reload", alive)
}
