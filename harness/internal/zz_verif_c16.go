package internal

import (
	"context"
	"sync"

	oidcv1 "github.com/istio-ecosystem/authservice/config/gen/go/v1/oidc"
	"github.com/istio-ecosystem/authservice/internal/vn"
)

func init() {
	verifHarnesses["VerifC16_CAReloadWritesPooledConfig"] = VerifC16_CAReloadWritesPooledConfig
	verifHarnesses["VerifC16_PoolMapUnderLock"] = VerifC16_PoolMapUnderLock
}

// VerifC16_CAReloadWritesPooledConfig (lockset audit): the CA reload callback rewrites RootCAs of
// the pooled tls.Config that HTTP clients of running checks are using; that write must be
// synchronised with them. Natively: updateCA and readers in goroutines under -race.
func VerifC16_CAReloadWritesPooledConfig() {
	pool := NewTLSConfigPool(context.Background()).(*tlsConfigPool)
	cfg := &oidcv1.OIDCConfig{TrustedCaConfig: &oidcv1.OIDCConfig_TrustedCertificateAuthority{TrustedCertificateAuthority: verifCAa}}
	tc, err := pool.LoadTLSConfig(cfg)
	if err != nil || tc == nil {
		return
	}
	id := encodeConfig(cfg).hash()
	if vn.Symbolic() {
		vn.WatchWrites(tc)
		vn.Tag("updateCA-writes-pooled-tls.Config")
		pool.updateCA(id, []byte(verifCAb))
		vn.Unwatch()
		vn.Cover("C16/ca-reload-audited", true)
		return
	}
	var wg sync.WaitGroup
	for i := 0; i < 4; i++ {
		wg.Add(2)
		go func() { defer wg.Done(); pool.updateCA(id, []byte(verifCAb)) }()
		go func() { defer wg.Done(); _ = tc.RootCAs }()
	}
	wg.Wait()
}

// VerifC16_PoolMapUnderLock (lockset audit): every access to the pool's configuration map and to
// the file watcher's map happens under their mutexes, and both are free on return.
func VerifC16_PoolMapUnderLock() {
	pool := NewTLSConfigPool(context.Background()).(*tlsConfigPool)
	k := kitTLSSettings("a")
	vn.Watch(pool.configs)
	vn.Watch(pool.caWatcher.watchers)
	_, _ = pool.LoadTLSConfig(k.cfg)
	_, _ = pool.LoadTLSConfig(k.cfg)
	vn.Unwatch()
	vn.Cover("C16/pool-audited", true)
	vn.Assert("C16/pool-mutex-released", !vn.MutexHeld(&pool.caWatcher.mu))
}
