package k8s

import (
	"context"
	"sync"

	"k8s.io/apimachinery/pkg/types"
	ctrl "sigs.k8s.io/controller-runtime"

	configv1 "github.com/istio-ecosystem/authservice/config/gen/go/v1"
	oidcv1 "github.com/istio-ecosystem/authservice/config/gen/go/v1/oidc"
	"github.com/istio-ecosystem/authservice/internal"
	"github.com/istio-ecosystem/authservice/internal/vn"
)

func init() {
	verifHarnesses["VerifC16_ReconcileWritesSharedConfig"] = VerifC16_ReconcileWritesSharedConfig
}

// VerifC16_ReconcileWritesSharedConfig (lockset audit): the secret controller's Reconcile runs
// concurrently with checks that read the client secret from the same OIDCConfig message; its
// write must be synchronised. Natively: Reconcile and readers in goroutines under -race.
func VerifC16_ReconcileWritesSharedConfig() {
	oc := &oidcv1.OIDCConfig{ClientId: "c", ClientSecretConfig: &oidcv1.OIDCConfig_ClientSecretRef{ClientSecretRef: &oidcv1.OIDCConfig_SecretReference{Name: "s"}}}
	cfg := &configv1.Config{Chains: []*configv1.FilterChain{{Name: "a", Filters: []*configv1.Filter{{Type: &configv1.Filter_Oidc{Oidc: oc}}}}}}
	api := &symK8s{kind: 2, hasKey: true, value: vn.StringIn("secret-value", 2, alphaLower)}
	vn.Assume(api.value != "")
	s := &SecretController{log: internal.Logger(internal.Config), config: cfg, namespace: "ns", k8sClient: api}
	if err := s.loadSecrets(); err != nil {
		return
	}
	req := ctrl.Request{NamespacedName: types.NamespacedName{Namespace: "ns", Name: "s"}}
	if vn.Symbolic() {
		vn.WatchWrites(oc)
		vn.Tag("Reconcile-writes-shared-OIDCConfig")
		_, _ = s.Reconcile(context.Background(), req)
		vn.Unwatch()
		vn.Cover("C16/reconcile-audited", true)
		return
	}
	var wg sync.WaitGroup
	for i := 0; i < 4; i++ {
		wg.Add(2)
		go func() { defer wg.Done(); _, _ = s.Reconcile(context.Background(), req) }()
		go func() { defer wg.Done(); _ = oc.GetClientSecret() }()
	}
	wg.Wait()
}
