package k8s

// Verification harness for the Kubernetes secret controller (injected by overlay).

import (
	"context"
	"errors"
	"time"

	corev1 "k8s.io/api/core/v1"
	apierrors "k8s.io/apimachinery/pkg/api/errors"
	metav1 "k8s.io/apimachinery/pkg/apis/meta/v1"
	"k8s.io/apimachinery/pkg/runtime/schema"
	"k8s.io/apimachinery/pkg/types"
	ctrl "sigs.k8s.io/controller-runtime"
	"sigs.k8s.io/controller-runtime/pkg/client"

	configv1 "github.com/istio-ecosystem/authservice/config/gen/go/v1"
	oidcv1 "github.com/istio-ecosystem/authservice/config/gen/go/v1/oidc"
	"github.com/istio-ecosystem/authservice/internal"
	"github.com/istio-ecosystem/authservice/internal/vn"
)

var verifHarnesses = map[string]func(){
	"VerifC19_SecretPropagation": VerifC19_SecretPropagation,
}

const alphaLower = "abcdefghijklmnopqrstuvwxyz"

var errAPIServer = errors.New("api server unavailable")

// symK8s is the API-server side: Get answers with NotFound, another error, or a Secret that may
// be in deletion, lack the key, or carry an empty or non-empty value.
type symK8s struct {
	client.Client
	kind     int // 0 not found, 1 other error, 2 secret
	deleting bool
	hasKey   bool
	value    string
	asked    []types.NamespacedName
	deletedAt time.Time
}

func (k *symK8s) Get(_ context.Context, key client.ObjectKey, obj client.Object, _ ...client.GetOption) error {
	k.asked = append(k.asked, key)
	switch k.kind {
	case 0:
		return apierrors.NewNotFound(schema.GroupResource{Resource: "secrets"}, key.Name)
	case 1:
		return errAPIServer
	}
	s := obj.(*corev1.Secret)
	s.Name, s.Namespace = key.Name, key.Namespace
	if k.deleting {
		at := metav1.NewTime(k.deletedAt)
		s.DeletionTimestamp = &at
	}
	s.Data = map[string][]byte{}
	if k.hasKey {
		s.Data[clientSecretKey] = []byte(k.value)
	}
	return nil
}

type kitFilterSecret struct {
	cfg      *oidcv1.OIDCConfig
	isRef    bool
	name, ns string
	literal  string
}

// VerifC19_SecretPropagation: filters take their client secret from literal values or from
// Kubernetes Secrets (names shared, distinct or absent; namespace absent, own or foreign).
// After start-up and after each reconcile of an arbitrary Secret the client secret of every
// filter equals the reference: updated iff the filter references that Secret by name, the event
// is for the controller's namespace, the Secret is not being deleted and carries a non-empty
// client-secret; unchanged otherwise. Cross-namespace references are refused at start-up.
func VerifC19_SecretPropagation() {
	ownNS := vn.StringIn("own-namespace", 2, alphaLower)
	vn.Assume(len(ownNS) > 0)
	nf := 1 + vn.Choice("nfilters", vn.Bound("c19-max-filters", 2))
	cfg := &configv1.Config{}
	var fs []*kitFilterSecret
	foreign := false
	for i := 0; i < nf; i++ {
		n := "f" + string(rune('0'+i))
		f := &kitFilterSecret{cfg: &oidcv1.OIDCConfig{ClientId: vn.StringIn(n+"-client-id", 2, alphaLower)}}
		switch vn.Choice(n+"-secret-kind", 3) {
		case 0:
			f.literal = vn.StringIn(n+"-literal-secret", 2, alphaLower)
			f.cfg.ClientSecretConfig = &oidcv1.OIDCConfig_ClientSecret{ClientSecret: f.literal}
		case 1:
			f.isRef = true
			f.name = vn.StringIn(n+"-secret-name", 2, alphaLower)
			f.ns = vn.StringIn(n+"-secret-namespace", 2, alphaLower)
			f.cfg.ClientSecretConfig = &oidcv1.OIDCConfig_ClientSecretRef{ClientSecretRef: &oidcv1.OIDCConfig_SecretReference{Name: f.name, Namespace: f.ns}}
			if f.name != "" && f.ns != "" && f.ns != ownNS {
				foreign = true
			}
		default:
			// no secret source at all
		}
		fs = append(fs, f)
		cfg.Chains = append(cfg.Chains, &configv1.FilterChain{Name: n, Filters: []*configv1.Filter{{Type: &configv1.Filter_Oidc{Oidc: f.cfg}}}})
	}
	// a Secret is "being deleted" from the moment its deletionTimestamp is set, whatever that
	// instant is compared with the service's own clock (graceful deletion and clock skew put it in
	// the future): the timestamp is the local clock plus an arbitrary offset of either sign
	var now time.Time
	if vn.Symbolic() {
		now = vn.Time("now")
		vn.SetNow(now)
	} else {
		now = time.Now()
	}
	deletedAt := now.Add(time.Duration(vn.Int("deleted-at-offset-s", -1000000000, 1000000000)) * time.Second)
	api := &symK8s{kind: int(vn.Int("api-answer", 0, 2)), deleting: vn.Bool("secret-deleting"), hasKey: vn.Bool("secret-has-key"), value: vn.StringIn("secret-value", 2, alphaLower), deletedAt: deletedAt}
	s := &SecretController{log: internal.Logger(internal.Config), config: cfg, namespace: ownNS, k8sClient: api}
	err := s.loadSecrets()
	vn.Cover("C19/cross-namespace-refused", vn.And(foreign, err != nil))
	if foreign {
		// the first foreign reference in configuration order stops start-up
		vn.Assert("C19/cross-namespace-reference-refused", err != nil)
		return
	}
	vn.Assert("C19/start-up-accepts-own-namespace-references", err == nil)

	expected := make([]string, len(fs))
	for i, f := range fs {
		expected[i] = f.literal
	}
	events := 1 + vn.Choice("second-event", 2)
	for ev := 0; ev < events; ev++ {
		if ev == 1 {
			api.kind, api.deleting, api.hasKey, api.value = int(vn.Int("api-answer-2", 0, 2)), vn.Bool("secret-deleting-2"), vn.Bool("secret-has-key-2"), vn.StringIn("secret-value-2", 2, alphaLower)
		}
		evName := vn.StringIn("event-name"+string(rune('0'+ev)), 2, alphaLower)
		evNS := vn.StringIn("event-namespace"+string(rune('0'+ev)), 2, alphaLower)
		_, rerr := s.Reconcile(context.Background(), ctrl.Request{NamespacedName: types.NamespacedName{Namespace: evNS, Name: evName}})
		applies := vn.And(evNS == ownNS, api.kind == 2, !api.deleting, api.hasKey, api.value != "")
		vn.Cover("C19/update-applied", applies)
		vn.Assert("C19/not-found-is-not-an-error", vn.Implies(api.kind != 1, rerr == nil))
		for i, f := range fs {
			if vn.And(applies, f.isRef, f.name != "", f.name == evName) {
				expected[i] = api.value
			}
			vn.Assert("C19/client-secret-equals-reference", f.cfg.GetClientSecret() == expected[i])
		}
	}
}
