package authz

import (
	"context"
	"time"

	envoy "github.com/envoyproxy/go-control-plane/envoy/service/auth/v3"

	"github.com/istio-ecosystem/authservice/internal/vn"
)

func init() {
	verifHarnesses["VerifC03_LoginCompletes"] = VerifC03_LoginCompletes
}

// VerifC03_LoginCompletes: an unauthenticated browser follows the redirects through a compliant
// provider: (1) any URL -> login redirect with a session cookie; (2) callback with the issued
// state -> 302 to the URL of (1); (3) the URL of (1) again, while the provider's tokens are valid
// -> OK with those tokens injected; (4) once more -> OK again. One authorization redirect, one
// code exchange.
func VerifC03_LoginCompletes() {
	kc := kitConfig(kitCfgOpts{accessToken: vn.Choice("cfg-access-token", 2) == 1, logout: vn.Choice("cfg-logout", 2) == 1})
	cfg := kc.cfg
	store := kitStore(0, cfg.ClientId, false, false)
	env := kitHandler(cfg, store, false, true)
	scheme := vn.StringIn("req-scheme", 5, "htps")
	host := vn.String("req-host", 4)
	target := vn.String("req-target", vn.Bound("path-bytes", 6))
	// the first request is neither the callback nor the logout endpoint
	first := kitHTTPReq(scheme, host, target, kitClientHeaders())
	vn.Assume(!matchesCallbackPath(env.h.log, cfg, first.GetAttributes().GetRequest().GetHttp()))
	vn.Assume(!matchesLogoutPath(env.h.log, cfg, first.GetAttributes().GetRequest().GetHttp()))

	// (1)
	now1 := env.now
	resp1 := &envoy.CheckResponse{}
	err := env.h.Process(context.Background(), first, resp1)
	vn.Assert("C03/step1-redirect", vn.And(err == nil, !kitOK(resp1), resp1.GetDeniedResponse() != nil))
	sid := env.gen.sessionID
	st := store.slots[sid]
	vn.Assert("C03/step1-login-state-stored", vn.And(st != nil, st != nil && st.auth != nil))
	if st == nil || st.auth == nil {
		return
	}
	cookie, nc := kitHeader(resp1.GetDeniedResponse().GetHeaders(), "set-cookie")
	vn.Assert("C03/step1-sets-the-session-cookie", vn.And(nc == 1, cookie == getCookieName(cfg)+"="+sid+"; HttpOnly; Secure; SameSite=Lax; Path=/"))

	// (2) the provider redirects the browser to the callback
	now2 := vn.Time("now2")
	vn.Assume(!now2.Before(now1))
	env.now = now2
	env.idp.nonce = st.auth.Nonce
	env.idp.prepare()
	if cfg.AccessToken != nil {
		vn.Assume(env.idp.lastBody.access != "") // a compliant provider returns the access token
	}
	cbHost := kc.cbHost
	if kc.cbPort != "" {
		cbHost += ":" + kc.cbPort
	}
	code := vn.StringIn("code", 2, alphaID)
	vn.Assume(len(code) > 0)
	headers := map[string]string{"cookie": getCookieName(cfg) + "=" + sid}
	resp2 := &envoy.CheckResponse{}
	err = env.h.Process(context.Background(), kitHTTPReq("https", cbHost, kc.cbPath+"?state="+st.auth.State+"&code="+code, headers), resp2)
	loc, nl := kitHeader(resp2.GetDeniedResponse().GetHeaders(), "location")
	vn.Assert("C03/step2-returns-to-the-requested-url", vn.And(err == nil, nl == 1, loc == scheme+"://"+host+target, resp2.GetDeniedResponse().GetStatus().GetCode() == 302))
	vn.Assert("C03/one-code-exchange", len(env.idp.calls) == 1)

	// (3) the original URL again, while the provider's tokens are valid
	body := env.idp.lastBody
	now3 := vn.Time("now3")
	vn.Assume(!now3.Before(now2))
	vn.Assume(now3.Before(env.idp.idExp.Truncate(time.Second)))
	if body.expKind == 2 {
		// "while those tokens remain valid": the service may count a token as expired up to five
		// seconds early (its allowance for the time the retrieval took), but never so early that a
		// token the provider has just issued (expires_in >= 1) is unusable at once -- the browser
		// that follows the callback's redirect within half a second is answered OK, otherwise a
		// short-lived token means a redirect loop
		immediately := now3.Before(now2.Add(500 * time.Millisecond))
		withinLifetime := now3.Before(now2.Add(time.Duration(body.expiresIn)*time.Second - 5*time.Second))
		vn.Assume(vn.Or(immediately, withinLifetime))
		vn.Cover("C03/short-lived-token-used-at-once", vn.And(immediately, body.expiresIn <= 5))
	}
	env.now = now3
	resp3 := &envoy.CheckResponse{}
	err = env.h.Process(context.Background(), kitHTTPReq(scheme, host, target, headers), resp3)
	vn.Cover("C03/expires-in-absent", body.expKind == 0)
	vn.Cover("C03/expires-in-given", body.expKind == 2)
	vn.Cover("C03/no-refresh-token", body.refresh == "")
	vn.Assert("C03/step3-ok", vn.And(err == nil, kitOK(resp3)))
	if err != nil || !kitOK(resp3) {
		return
	}
	hs := resp3.GetOkResponse().GetHeaders()
	idVal, idN := kitHeader(hs, cfg.IdToken.Header)
	wantID := body.idToken
	if cfg.IdToken.Preamble != "" {
		wantID = cfg.IdToken.Preamble + " " + body.idToken
	}
	vn.Assert("C03/step3-provider-id-token-injected", vn.And(idN == 1, idVal == wantID))
	if cfg.AccessToken != nil {
		atVal, atN := kitHeader(hs, cfg.AccessToken.Header)
		wantAT := body.access
		if cfg.AccessToken.Preamble != "" {
			wantAT = cfg.AccessToken.Preamble + " " + body.access
		}
		vn.Assert("C03/step3-provider-access-token-injected", vn.And(atN == 1, atVal == wantAT))
	}
	vn.Assert("C03/not-sent-to-the-provider-again", len(env.idp.calls) == 1)

	// (4) a further request inside the lifetime
	resp4 := &envoy.CheckResponse{}
	err = env.h.Process(context.Background(), kitHTTPReq(scheme, host, target, headers), resp4)
	vn.Assert("C03/step4-ok", vn.And(err == nil, kitOK(resp4)))
}
