package authz

import (
	"strings"
	"context"

	envoy "github.com/envoyproxy/go-control-plane/envoy/service/auth/v3"

	"github.com/istio-ecosystem/authservice/internal/oidc"
	"github.com/istio-ecosystem/authservice/internal/vn"
)

var verifHarnesses = map[string]func(){
	"VerifC01_Session":  VerifC01_Session,
	"VerifC01_Callback": VerifC01_Callback,
	"VerifC01_Logout":   VerifC01_Logout,
}

const (
	pathAny      = 0
	pathCallback = 1
	pathLogout   = 2
)

// kitArbitraryRequest builds an arbitrary request towards the filter; it returns the request
// and the session id its cookie carries ("" when the shape cannot carry one).
func kitArbitraryRequest(kc *kitCfg, pathShape int) (*envoy.CheckRequest, string) {
	cfg := kc.cfg
	cookieVal := vn.StringIn("cookie-value", vn.Bound("session-id-bytes", 3), alphaID)
	shape := vn.Choice("cookie-shape", vn.Bound("cookie-shapes", 4))
	name := getCookieName(cfg)
	var headers map[string]string
	carried := cookieVal
	switch shape {
	case 0:
		headers = map[string]string{}
		carried = ""
	case 1:
		headers = map[string]string{"cookie": name + "=" + cookieVal}
		if vn.Bound("many-cookies", 0) > 0 && vn.Choice("many-other-cookies-first", 2) == 1 {
			// a browser that holds many cookies of the application itself (RFC 6265 obliges user
			// agents to support at least 50 per domain; they keep more) and sends ours last
			headers = map[string]string{"cookie": kitManyCookies + name + "=" + cookieVal}
			vn.Cover("kit/many-cookies", true)
		}
	case 2:
		headers = map[string]string{"cookie": vn.StringIn("other-cookie", 3, alphaLower+"=") + "; " + name + "=" + cookieVal}
	default:
		headers = map[string]string{"cookie": vn.String("raw-cookie", vn.Bound("raw-cookie-bytes", 8))}
		carried = ""
	}
	host := kc.cbHost
	if kc.cbPort != "" {
		host += ":" + kc.cbPort
	}
	var path string
	switch pathShape {
	case pathAny:
		path = vn.String("path", vn.Bound("path-bytes", 6))
		host = vn.StringIn("host", vn.Bound("cfg-string-bytes", 3)+1, alphaHost+":0123456789")
	case pathCallback:
		path = kc.cbPath + "?" + vn.String("callback-query", vn.Bound("callback-query-bytes", 14))
	default:
		// a request for the logout path: bare, with a query or with a fragment (requests for other
		// paths are the subject of the pathAny harnesses)
		switch vn.Choice("logout-tail", 3) {
		case 0:
			path = cfg.GetLogout().GetPath()
		case 1:
			path = cfg.GetLogout().GetPath() + "?" + vn.String("logout-query", 3)
		default:
			path = cfg.GetLogout().GetPath() + "#" + vn.String("logout-fragment", 2)
		}
	}
	scheme := vn.StringIn("req-scheme", 5, "htps")
	return kitHTTPReq(scheme, host, path, headers), carried
}

func kitOK(resp *envoy.CheckResponse) bool { return resp.GetStatus().GetCode() == 0 }

// refFresh is the reference freshness predicate of the property: the ID token is unexpired and,
// when access-token forwarding is configured and an access token with known expiry is held,
// that expiry has not passed.
func refFresh(env *kitEnv, t *oidc.TokenResponse) bool {
	tok, err := oidc.ParseToken(t.IDToken)
	if err != nil {
		return false
	}
	idFresh := !tok.Expiration().Before(env.now)
	if env.cfg.AccessToken == nil {
		return idFresh
	}
	atFresh := vn.Or(t.AccessToken == "", t.AccessTokenExpiresAt.IsZero(), !t.AccessTokenExpiresAt.Before(env.now))
	return vn.And(idFresh, atFresh)
}

// VerifC01_FailClosedStep: one check from an arbitrary abstract store state, with an arbitrary
// request, instant, IdP behaviour and a fault oracle at every store / IdP / key-source call.
// OK must be justified by the abstract session state.
func VerifC01_Session()  { verifC01Step(pathAny) }
func VerifC01_Callback() { verifC01Step(pathCallback) }
func VerifC01_Logout()   { verifC01Step(pathLogout) }

func verifC01Step(pathShape int) {
	kc := kitConfig(kitCfgOpts{accessToken: vn.Choice("cfg-access-token", 2) == 1, logout: pathShape == pathLogout || vn.Choice("cfg-logout", vn.Bound("cfg-logout-variants", 2)) == vn.Bound("cfg-logout-variants", 2)-1})
	store := kitStore(vn.Bound("store-slots", 1), kc.cfg.ClientId, true, false)
	env := kitHandler(kc.cfg, store, true, false)
	req, carried := kitArbitraryRequest(kc, pathShape)

	resp := &envoy.CheckResponse{}
	err := env.h.Process(context.Background(), req, resp)
	vn.Assert("C01/process-returns-no-error", err == nil)
	ok := kitOK(resp)
	vn.Cover("C01/ok", ok)
	vn.Cover("C01/denied", !ok)
	if !ok {
		vn.Assert("C01/denial-has-denied-body", resp.GetDeniedResponse() != nil)
		return
	}
	vn.Assert("C01/ok-has-no-denied-body", resp.GetDeniedResponse() == nil)

	// --- OK must be justified
	vn.Assert("C01/ok-needs-session-cookie", carried != "")
	anyFail := env.jwks.fail
	var read *kitStoreCall
	var write *kitStoreCall
	for i := range store.calls {
		c := &store.calls[i]
		anyFail = vn.Or(anyFail, c.failed)
		if c.op == "GetTokenResponse" && read == nil {
			read = c
		}
		if c.op == "SetTokenResponse" {
			write = c
		}
	}
	vn.Assert("C01/ok-despite-a-fault", !anyFail)
	vn.Assert("C01/ok-without-reading-the-session", read != nil)
	if read == nil {
		return
	}
	vn.Assert("C01/ok-for-a-session-other-than-the-cookie's", vn.And(read.id == carried, read.found))
	if !read.found {
		return
	}
	fresh := refFresh(env, read.tokens)
	if len(env.idp.calls) == 0 {
		vn.Cover("C01/ok-fresh", true)
		vn.Assert("C01/ok-with-expired-tokens-and-no-refresh", fresh)
		vn.Assert("C01/no-write-on-the-fresh-path", write == nil)
		return
	}
	// refreshed during this very check
	vn.Cover("C01/ok-refreshed", true)
	vn.Assert("C01/refresh-of-unexpired-tokens", !fresh)
	vn.Assert("C01/one-token-request", len(env.idp.calls) == 1)
	call := env.idp.calls[0]
	gt := call.form["grant_type"]
	rt := call.form["refresh_token"]
	vn.Assert("C01/refresh-grant", vn.And(len(gt) == 1, len(rt) == 1))
	vn.Assert("C01/refresh-grant-values", vn.And(gt[0] == "refresh_token", rt[0] == read.tokens.RefreshToken, read.tokens.RefreshToken != ""))
	vn.Assert("C01/idp-answered-200-with-body", env.idp.answer == 3)
	// "renewed by a successful refresh exchange": what came back is a token response (OIDC Core
	// 12.2 / RFC 6749 5.1: a JSON object with token_type, here Bearer) -- not an empty object, null
	// or an error document under status 200, which renew nothing
	body := env.idp.lastBody
	vn.Assert("C01/refresh-answer-is-a-token-response", vn.And(body.kind == 3, body.ttKind == 1, strings.EqualFold(body.tokenType, "Bearer")))
	vn.Assert("C01/refreshed-tokens-stored", write != nil)
	if write != nil {
		vn.Assert("C01/refreshed-tokens-stored-under-the-session", vn.And(write.id == carried, write.took, !write.failed))
	}
}

// kitManyCookies: sixty cookies of the application, "c00=v; c01=v; ... ".
var kitManyCookies = func() string {
	out := ""
	for i := 0; i < 60; i++ {
		out += "c" + string(rune('0'+i/10)) + string(rune('0'+i%10)) + "=v; "
	}
	return out
}()
