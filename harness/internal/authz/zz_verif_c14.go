package authz

import (
	"github.com/istio-ecosystem/authservice/internal/vn"
)

func init() {
	verifHarnesses["VerifC14_Session"] = VerifC14_Session
	verifHarnesses["VerifC14_Callback"] = VerifC14_Callback
	verifHarnesses["VerifC14_Logout"] = VerifC14_Logout
}

func VerifC14_Session()  { verifC14(pathAny) }
func VerifC14_Callback() { verifC14(pathCallback) }
func VerifC14_Logout()   { verifC14(pathLogout) }

// verifC14: taint analysis over every path of one check (arbitrary state, adversarial provider,
// faults everywhere). Sources: client secret (1), PKCE verifiers (2), refresh tokens (4), access
// tokens (8), ID tokens (16); propagation through concatenation, slicing, escaping, base64 and
// JSON decoding; only the S256 challenge declassifies. No denial/redirect may carry any taint;
// an OK answer carries only the ID token under its header and the access token under its own.
func verifC14(pathShape int) {
	r := kitStep(kitStepOpts{pathShape: pathShape, faults: true, honestIdP: false})
	if r.err != nil {
		return
	}
	cfg := r.kc.cfg
	vn.Assert("C14/status-message-clean", vn.TaintOf(r.resp.GetStatus().GetMessage()) == 0)
	if kitOK(r.resp) {
		vn.Cover("C14/ok", true)
		for _, h := range r.resp.GetOkResponse().GetHeaders() {
			k, v := h.GetHeader().GetKey(), h.GetHeader().GetValue()
			vn.Assert("C14/ok-header-name-clean", vn.TaintOf(k) == 0)
			t := vn.TaintOf(v)
			if k == cfg.IdToken.Header {
				vn.Assert("C14/id-header-carries-only-the-id-token", t|16 == 16)
			} else if cfg.AccessToken != nil && k == cfg.AccessToken.Header {
				vn.Assert("C14/access-header-carries-only-the-access-token", t|8 == 8)
			} else {
				vn.Assert("C14/other-ok-header-clean", t == 0)
			}
		}
		return
	}
	d := r.resp.GetDeniedResponse()
	vn.Cover("C14/denied", true)
	vn.Assert("C14/denial-body-clean", vn.TaintOf(d.GetBody()) == 0)
	for _, h := range d.GetHeaders() {
		vn.Assert("C14/denial-header-clean", vn.And(vn.TaintOf(h.GetHeader().GetKey()) == 0, vn.TaintOf(h.GetHeader().GetValue()) == 0))
	}
}
