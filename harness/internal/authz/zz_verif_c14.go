package authz

import (
	"context"

	corev3 "github.com/envoyproxy/go-control-plane/envoy/config/core/v3"
	envoy "github.com/envoyproxy/go-control-plane/envoy/service/auth/v3"

	"github.com/istio-ecosystem/authservice/internal/vn"
)

func init() {
	verifHarnesses["VerifC14_Session"] = VerifC14_Session
	verifHarnesses["VerifC14_Callback"] = VerifC14_Callback
	verifHarnesses["VerifC14_Logout"] = VerifC14_Logout
	verifHarnesses["VerifC14_ResponseOfEarlierFilter"] = VerifC14_ResponseOfEarlierFilter
}

// VerifC14_ResponseOfEarlierFilter: the CheckResponse handed to Process may already carry the OK
// headers an earlier filter of the same chain added for the upstream (tokens). A denial produced
// by this filter must not carry them over to the user agent.
func VerifC14_ResponseOfEarlierFilter() {
	kc := kitConfig(kitCfgOpts{accessToken: vn.Choice("cfg-access-token", 2) == 1, logout: true})
	store := kitStore(vn.Bound("store-slots", 1), kc.cfg.ClientId, false, false)
	env := kitHandler(kc.cfg, store, false, false)
	req, _ := kitArbitraryRequest(kc, vn.Choice("path-shape", 3))
	earlier := vn.Secret(vn.StringIn("earlier-filter-token", 2, alphaID), 8)
	vn.Assume(earlier != "")
	resp := &envoy.CheckResponse{HttpResponse: &envoy.CheckResponse_OkResponse{OkResponse: &envoy.OkHttpResponse{
		Headers: []*corev3.HeaderValueOption{{Header: &corev3.HeaderValue{Key: "x-earlier", Value: "Bearer " + earlier}}},
	}}}
	if err := env.h.Process(context.Background(), req, resp); err != nil || kitOK(resp) {
		return
	}
	vn.Cover("C14/denied-after-earlier-ok", true)
	d := resp.GetDeniedResponse()
	vn.Assert("C14/denial-body-clean", vn.TaintOf(d.GetBody()) == 0)
	for _, h := range d.GetHeaders() {
		vn.Assert("C14/denial-does-not-carry-earlier-ok-headers", vn.And(vn.TaintOf(h.GetHeader().GetKey()) == 0, vn.TaintOf(h.GetHeader().GetValue()) == 0))
	}
}

func VerifC14_Session()  { verifC14(pathAny) }
func VerifC14_Callback() { verifC14(pathCallback) }
func VerifC14_Logout()   { verifC14(pathLogout) }

// verifC14: taint analysis over every path of one check (arbitrary state, adversarial provider,
// faults everywhere). Sources: client secret (1), PKCE verifiers (2), refresh tokens (4), access
// tokens (8), ID tokens (16); propagation through concatenation, slicing, escaping, base64 and
// JSON decoding; only the S256 challenge declassifies. No denial/redirect may carry any taint;
// an OK answer carries only the ID token under its header and the access token under its own.
func verifC14(pathShape int) {
	r := kitStep(kitStepOpts{pathShape: pathShape, faults: true, honestIdP: false})
	if r.err != nil {
		return
	}
	cfg := r.kc.cfg
	vn.Assert("C14/status-message-clean", vn.TaintOf(r.resp.GetStatus().GetMessage()) == 0)
	if kitOK(r.resp) {
		vn.Cover("C14/ok", true)
		for _, h := range r.resp.GetOkResponse().GetHeaders() {
			k, v := h.GetHeader().GetKey(), h.GetHeader().GetValue()
			vn.Assert("C14/ok-header-name-clean", vn.TaintOf(k) == 0)
			t := vn.TaintOf(v)
			if k == cfg.IdToken.Header {
				vn.Assert("C14/id-header-carries-only-the-id-token", t|16 == 16)
			} else if cfg.AccessToken != nil && k == cfg.AccessToken.Header {
				vn.Assert("C14/access-header-carries-only-the-access-token", t|8 == 8)
			} else {
				vn.Assert("C14/other-ok-header-clean", t == 0)
			}
		}
		return
	}
	d := r.resp.GetDeniedResponse()
	vn.Cover("C14/denied", true)
	vn.Assert("C14/denial-body-clean", vn.TaintOf(d.GetBody()) == 0)
	for _, h := range d.GetHeaders() {
		vn.Assert("C14/denial-header-clean", vn.And(vn.TaintOf(h.GetHeader().GetKey()) == 0, vn.TaintOf(h.GetHeader().GetValue()) == 0))
	}
}
