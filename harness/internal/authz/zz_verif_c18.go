package authz

import (
	"context"
	"net/http"
	"time"

	envoy "github.com/envoyproxy/go-control-plane/envoy/service/auth/v3"

	configv1 "github.com/istio-ecosystem/authservice/config/gen/go/v1"
	"github.com/istio-ecosystem/authservice/internal"
	"github.com/istio-ecosystem/authservice/internal/oidc"
	"github.com/istio-ecosystem/authservice/internal/vn"
)

func init() {
	verifHarnesses["VerifC18_SessionHonouredOnlyByItsFilter"] = VerifC18_SessionHonouredOnlyByItsFilter
}

// VerifC18_SessionHonouredOnlyByItsFilter: two OIDC filters (own cookie prefixes, client ids) on
// the REAL session store factory (shared in-memory store). A session with fresh tokens created
// through filter A is presented to filter B under B's cookie name: B must not answer OK.
func VerifC18_SessionHonouredOnlyByItsFilter() {
	ka := kitConfig(kitCfgOpts{})
	a := ka.cfg
	b := kitConfig(kitCfgOpts{}).cfg
	vn.Assume(vn.And(a.CookieNamePrefix != b.CookieNamePrefix, a.ClientId != b.ClientId))
	cfg := &configv1.Config{Chains: []*configv1.FilterChain{
		{Name: "a", Filters: []*configv1.Filter{{Type: &configv1.Filter_Oidc{Oidc: a}}}},
		{Name: "b", Filters: []*configv1.Filter{{Type: &configv1.Filter_Oidc{Oidc: b}}}},
	}}
	now := vn.Time("now")
	vn.SetNow(now)
	factory := oidc.NewSessionStoreFactory(cfg)
	vn.Assert("C18/start-up", factory.PreRun() == nil)
	// the session was created by a login through filter A
	sid := vn.StringIn("sid", vn.Bound("session-id-bytes", 3), alphaID)
	vn.Assume(len(sid) > 0)
	tokA := &oidc.TokenResponse{IDToken: vn.JWT("a-id", true, 0, "", 1, a.ClientId, "", vn.Time("a-exp"), true)}
	vn.Assert("C18/session-created-through-a", factory.Get(a).SetTokenResponse(context.Background(), sid, tokA) == nil)
	hb := &oidcHandler{
		log: internal.Logger(internal.Authz), config: b, jwks: &symJWKS{cfg: b}, sessions: factory, sessionGen: &symGen{},
		clock: oidc.Clock{NowFn: func() time.Time { return now }}, httpClient: &http.Client{Transport: &symIdP{clientID: b.ClientId, honest: true, answer: -1}},
	}
	headers := map[string]string{"cookie": getCookieName(b) + "=" + sid}
	req := kitHTTPReq("https", vn.StringIn("host", 3, alphaHost), "/"+vn.StringIn("path", 3, alphaLower), headers)
	vn.Assume(!matchesCallbackPath(hb.log, b, req.GetAttributes().GetRequest().GetHttp()))
	resp := &envoy.CheckResponse{}
	err := hb.Process(context.Background(), req, resp)
	vn.Cover("C18/cross-filter-request", true)
	vn.Tag("shared-store-lookup-by-session-id")
	vn.Assert("C18/session-of-another-filter-is-not-honoured", vn.And(err == nil, !kitOK(resp)))
}
