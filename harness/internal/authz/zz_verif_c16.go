package authz

import (
	"context"
	"io"
	"time"

	envoy "github.com/envoyproxy/go-control-plane/envoy/service/auth/v3"

	"github.com/istio-ecosystem/authservice/internal"
	"github.com/istio-ecosystem/authservice/internal/oidc"
	"net/http"
	"strings"
	"sync"

	oidcv1 "github.com/istio-ecosystem/authservice/config/gen/go/v1/oidc"
	"github.com/istio-ecosystem/authservice/internal/vn"
)

func init() {
	verifHarnesses["VerifC16_SharedConfigWrittenByDiscovery"] = VerifC16_SharedConfigWrittenByDiscovery
	verifHarnesses["VerifC16_StaticConfigIsReadOnly"] = VerifC16_StaticConfigIsReadOnly
	verifHarnesses["VerifC16_CheckWritesSharedStateOnlyUnderLock"] = VerifC16_CheckWritesSharedStateOnlyUnderLock
}

type kitDiscoveryRT struct{ body string }

func (d *kitDiscoveryRT) RoundTrip(*http.Request) (*http.Response, error) {
	return &http.Response{StatusCode: 200, Status: "200 OK", Body: io.NopCloser(strings.NewReader(d.body))}, nil
}

// VerifC16_SharedConfigWrittenByDiscovery (lockset audit): with a discovery URI every check's
// handler construction runs loadWellKnownConfig on the OIDCConfig message that all checks share;
// writes to that message must be synchronised. Natively: the same call from several goroutines
// under the race detector.
func VerifC16_SharedConfigWrittenByDiscovery() {
	doc := vn.NewJSON("discovery", 3)
	vn.JSONStr(doc, "authorization_endpoint", 1, vn.StringIn("authorization-endpoint", 3, alphaID))
	vn.JSONStr(doc, "token_endpoint", 1, vn.StringIn("token-endpoint", 3, alphaID))
	vn.JSONStr(doc, "jwks_uri", 1, vn.StringIn("jwks-uri", 3, alphaID))
	vn.JSONStr(doc, "end_session_endpoint", 1, vn.StringIn("end-session-endpoint", 3, alphaID))
	client := &http.Client{Transport: &kitDiscoveryRT{body: vn.JSONText(doc)}}
	cfg := &oidcv1.OIDCConfig{ConfigurationUri: "https://idp/.well-known/" + vn.StringIn("issuer", 2, alphaID), Logout: &oidcv1.LogoutConfig{Path: "/logout"}}
	if vn.Symbolic() {
		vn.WatchWrites(cfg)
		vn.WatchWrites(cfg.Logout)
		vn.Tag("loadWellKnownConfig-writes-shared-OIDCConfig")
		_ = loadWellKnownConfig(client, cfg)
		vn.Unwatch()
		vn.Cover("C16/discovery-config-audited", true)
		return
	}
	_ = loadWellKnownConfig(client, cfg) // warm the cache: the writes to cfg still happen on every call
	var wg sync.WaitGroup
	for i := 0; i < 8; i++ {
		wg.Add(1)
		go func() { defer wg.Done(); _ = loadWellKnownConfig(client, cfg); _ = cfg.GetTokenUri() }()
	}
	wg.Wait()
}

// VerifC16_StaticConfigIsReadOnly (lockset audit): with statically configured endpoints a check
// never writes to the shared OIDCConfig message (so that concurrent checks only read it).
func VerifC16_StaticConfigIsReadOnly() {
	r := func() *kitStepResult {
		kc := kitConfig(kitCfgOpts{accessToken: true, logout: true})
		return &kitStepResult{kc: kc}
	}()
	cfg := r.kc.cfg
	store := kitStore(1, cfg.ClientId, false, false)
	env := kitHandler(cfg, store, false, true)
	req, _ := kitArbitraryRequest(r.kc, pathAny)
	vn.WatchWrites(cfg)
	vn.WatchWrites(cfg.IdToken)
	vn.WatchWrites(cfg.AccessToken)
	vn.WatchWrites(cfg.Logout)
	if err := loadWellKnownConfig(env.h.httpClient, cfg); err != nil {
		return
	}
	resp := newCheckResponse()
	_ = env.h.Process(ctxBackground(), req, resp)
	vn.Unwatch()
	vn.Cover("C16/static-config-audited", true)
}

// VerifC16_CheckWritesSharedStateOnlyUnderLock (shared-write audit): one handler serves all
// request goroutines of its filter. With statically configured endpoints a check of any kind
// (ordinary path, callback, logout; any cookie; any provider answer) writes nothing that outlives
// it -- handler fields, configuration, generator, HTTP client, package-level variables -- except
// under a mutex. (The session store has its own audit, C12; with a discovery URI the handler
// construction writes the shared configuration: known finding.) Natively: the real in-memory
// store and generator, many goroutines, the race detector.
func VerifC16_CheckWritesSharedStateOnlyUnderLock() {
	if !vn.Symbolic() {
		nativeC16ConcurrentChecks()
		return
	}
	kc := kitConfig(kitCfgOpts{accessToken: true, logout: true})
	store := kitStore(1, kc.cfg.ClientId, false, false)
	env := kitHandler(kc.cfg, store, false, false)
	shape := pathAny
	switch vn.Choice("request-kind", 3) {
	case 1:
		shape = pathCallback
	case 2:
		shape = pathLogout
	}
	vn.WatchSharedWrites()
	req, _ := kitArbitraryRequest(kc, shape)
	resp := &envoy.CheckResponse{}
	_ = env.h.Process(context.Background(), req, resp)
	vn.Unwatch()
	vn.Cover("C16/check-audited", true)
}

func nativeC16ConcurrentChecks() {
	cfg := &oidcv1.OIDCConfig{
		AuthorizationUri: "https://idp/auth", TokenUri: "https://idp/token", CallbackUri: "https://app/callback",
		ClientId: "client", ClientSecretConfig: &oidcv1.OIDCConfig_ClientSecret{ClientSecret: "secret"}, Scopes: []string{"openid"},
		IdToken: &oidcv1.TokenConfig{Header: "authorization", Preamble: "Bearer"}, Logout: &oidcv1.LogoutConfig{Path: "/logout", RedirectUri: "https://idp/logout"},
		JwksConfig: &oidcv1.OIDCConfig_Jwks{Jwks: vn.JWKSDoc("good")},
	}
	clock := oidc.Clock{}
	mem := oidc.NewMemoryStore(&clock, 0, 0)
	h := &oidcHandler{
		log: internal.Logger(internal.Authz), config: cfg, jwks: &symJWKS{cfg: cfg}, sessions: &kitFactory{store: mem},
		sessionGen: oidc.NewRandomGenerator(), clock: clock, httpClient: &http.Client{Transport: &kitDiscoveryRT{body: "{}"}},
	}
	var wg sync.WaitGroup
	for i := 0; i < 8; i++ {
		wg.Add(1)
		go func(i int) {
			defer wg.Done()
			for j := 0; j < 50; j++ {
				for _, path := range []string{"/app", "/logout", "/callback?state=s&code=c"} {
					resp := &envoy.CheckResponse{}
					_ = h.Process(context.Background(), kitHTTPReq("https", "app", path, map[string]string{}), resp)
				}
			}
		}(i)
	}
	wg.Wait()
	_ = time.Now()
}
