package authz

import (
	oidcv1 "github.com/istio-ecosystem/authservice/config/gen/go/v1/oidc"
	"github.com/istio-ecosystem/authservice/internal/vn"
)

func init() {
	verifHarnesses["VerifC05_Session"] = VerifC05_Session
	verifHarnesses["VerifC05_Callback"] = VerifC05_Callback
	verifHarnesses["VerifC05_Logout"] = VerifC05_Logout
	verifHarnesses["VerifC05_CookieNameForAnyPrefix"] = VerifC05_CookieNameForAnyPrefix
}

func VerifC05_Session()  { verifC05(pathAny) }
func VerifC05_Callback() { verifC05(pathCallback) }
func VerifC05_Logout()   { verifC05(pathLogout) }

// verifC05: one check from an arbitrary state (with store faults). Whenever the answer sets a
// session cookie with a live value (= a login redirect) the id is the freshly generated one, the
// presented session was destroyed first, and the login state was stored under the new id; tokens
// are only ever stored under an id that was read live in this check; the cookie is __Host-named,
// Path=/, no Domain, Secure, HttpOnly, SameSite; logout expires it.
func verifC05(pathShape int) {
	r := kitStep(kitStepOpts{pathShape: pathShape, faults: true, honestIdP: false})
	cfg := r.kc.cfg
	if r.err != nil {
		return
	}
	// the expected cookie name, written out independently of getCookieName
	name := "__Host-authservice-session-id-cookie"
	if cfg.CookieNamePrefix != "" {
		name = "__Host-" + cfg.CookieNamePrefix + "-authservice-session-id-cookie"
	}
	// token writes go only to the id the request presented and that was read live in this check
	for i := range r.store.calls {
		c := &r.store.calls[i]
		if c.op == "SetTokenResponse" {
			vn.Assert("C05/tokens-only-under-the-presented-id", vn.And(r.carried != "", c.id == r.carried))
			vn.Assert("C05/tokens-only-under-a-live-session", r.pre != nil)
		}
		if c.op == "SetAuthorizationState" {
			vn.Assert("C05/login-state-only-under-a-generated-id", vn.And(r.env.gen.n == 1, c.id == r.env.gen.sessionID))
		}
	}
	hs := r.resp.GetDeniedResponse().GetHeaders()
	cookie, n := kitHeader(hs, "set-cookie")
	vn.Assert("C05/at-most-one-set-cookie", n <= 1)
	if n == 0 {
		vn.Assert("C05/no-session-issued-without-a-cookie", vn.Or(r.env.gen.n == 0, r.resp.GetDeniedResponse().GetStatus().GetCode() != 302))
		return
	}
	deleted := name + "=deleted; HttpOnly; Secure; SameSite=Lax; Path=/; Max-Age=0"
	if cookie == deleted {
		vn.Cover("C05/logout-cookie", true)
		vn.Assert("C05/logout-only-on-the-logout-path", pathShape != pathCallback)
		return
	}
	// a live session cookie: this is a login redirect
	vn.Cover("C05/login-cookie", true)
	vn.Assert("C05/one-generated-id", r.env.gen.n == 1)
	sid := r.env.gen.sessionID
	vn.Assert("C05/cookie-exact", cookie == name+"="+sid+"; HttpOnly; Secure; SameSite=Lax; Path=/")
	// destroy the presented session before creating the new one
	removedAt, storedAt := -1, -1
	for i := range r.store.calls {
		c := &r.store.calls[i]
		if c.op == "RemoveSession" && c.took && !c.failed && c.id == r.carried {
			removedAt = i
		}
		if c.op == "SetAuthorizationState" && c.took && !c.failed {
			storedAt = i
			vn.Assert("C05/login-state-under-the-new-id", c.id == sid)
		}
	}
	vn.Assert("C05/login-state-stored", storedAt >= 0)
	if r.carried != "" {
		vn.Cover("C05/login-with-presented-id", true)
		vn.Assert("C05/presented-session-destroyed-first", vn.And(removedAt >= 0, removedAt < storedAt))
		if sl, ok := r.store.slots[r.carried]; ok && r.carried != sid {
			vn.Assert("C05/nothing-left-under-the-presented-id", sl == nil)
		}
	}
}

// VerifC05_CookieNameForAnyPrefix: "for all cookie-name prefixes" -- the step harnesses draw short
// lower-case prefixes; here the prefix is any byte string up to 10 bytes (so also spellings of
// "__Host-" itself, upper case, separators) and the name every answer uses (getCookieName, through
// which the Set-Cookie of the login redirect, the cookie lookup and the logout all go; the step
// harnesses check the attributes on real answers) is, byte for
// byte, "__Host-" + prefix + "-authservice-session-id-cookie", or the default name for no prefix.
func VerifC05_CookieNameForAnyPrefix() {
	prefix := vn.String("cookie-name-prefix", 10)
	cfg := &oidcv1.OIDCConfig{CookieNamePrefix: prefix}
	got := getCookieName(cfg)
	want := "__Host-authservice-session-id-cookie"
	if prefix != "" {
		want = "__Host-" + prefix + "-authservice-session-id-cookie"
	}
	vn.Cover("C05/prefix-given", prefix != "")
	vn.Assert("C05/cookie-name-is-host-prefixed-for-any-prefix", got == want)
}
