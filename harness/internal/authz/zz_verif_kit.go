package authz

// Verification harness kit for package authz (injected by overlay; never committed to /repo):
// symbolic configuration, requests, session-store / IdP / key-source models with fault oracles.

import (
	"context"
	"errors"
	"io"
	"net/http"
	"net/url"
	"strings"
	"time"

	envoy "github.com/envoyproxy/go-control-plane/envoy/service/auth/v3"
	"github.com/lestrrat-go/jwx/v2/jwk"

	oidcv1 "github.com/istio-ecosystem/authservice/config/gen/go/v1/oidc"
	"github.com/istio-ecosystem/authservice/internal"
	"github.com/istio-ecosystem/authservice/internal/oidc"
	"github.com/istio-ecosystem/authservice/internal/vn"
)

const (
	alphaLower = "abcdefghijklmnopqrstuvwxyz"
	alphaID    = "abcdefghijklmnopqrstuvwxyzABCDEFGHIJKLMNOPQRSTUVWXYZ0123456789"
	alphaHost  = "abcdefghijklmnopqrstuvwxyz."
)

var errInjected = errors.New("injected fault")

// ---------------------------------------------------------------- configuration

type kitCfgOpts struct {
	accessToken bool // forward the access token
	logout      bool
}

type kitCfg struct {
	cfg                          *oidcv1.OIDCConfig
	cbScheme, cbHost, cbPort, cbPath string
}

// kitConfig builds a configuration that satisfies the post-condition of config validation
// (C17): non-root callback path, logout path distinct and non-root, colon-free client id,
// id-token header set, token and authorization endpoints present.
func kitConfig(o kitCfgOpts) *kitCfg {
	sb := vn.Bound("cfg-string-bytes", 3)
	scheme := vn.StringIn("cfg-callback-scheme", 5, "htps")
	vn.Assume(vn.Or(scheme == "http", scheme == "https"))
	host := vn.StringIn("cfg-callback-host", sb+1, alphaHost)
	port := ""
	if vn.Choice("cfg-callback-has-port", vn.Bound("cfg-port-variants", 2)) == 1 {
		port = vn.StringIn("cfg-callback-port", 3, "0123456789")
		vn.Assume(len(port) > 0)
	}
	cbPath := "/" + vn.StringIn("cfg-callback-path", sb, alphaLower)
	clientID := vn.StringIn("cfg-client-id", sb, alphaID)
	vn.Assume(vn.And(len(host) > 0, len(cbPath) > 1, len(clientID) > 0))
	cfg := &oidcv1.OIDCConfig{
		AuthorizationUri:   vn.String("cfg-authorization-uri", sb+3),
		TokenUri:           vn.StringIn("cfg-token-uri", sb+1, alphaLower),
		CallbackUri:        vn.URL(scheme, host, port, cbPath, ""),
		ClientId:           clientID,
		ClientSecretConfig: &oidcv1.OIDCConfig_ClientSecret{ClientSecret: vn.Secret(vn.String("cfg-client-secret", sb), 1)},
		Scopes:             []string{"openid"},
		CookieNamePrefix:   vn.StringIn("cfg-cookie-prefix", 2, alphaLower),
		IdToken:            &oidcv1.TokenConfig{Header: vn.StringIn("cfg-id-header", sb, alphaLower), Preamble: vn.StringIn("cfg-id-preamble", sb, alphaID)},
	}
	vn.Assume(len(cfg.IdToken.Header) > 0)
	// configuration loading has already parsed the endpoints (C17)
	_, perr := url.Parse(cfg.TokenUri)
	vn.Assume(perr == nil)
	if o.accessToken {
		cfg.AccessToken = &oidcv1.TokenConfig{Header: vn.StringIn("cfg-at-header", sb, alphaLower), Preamble: vn.StringIn("cfg-at-preamble", sb, alphaID)}
		vn.Assume(vn.And(len(cfg.AccessToken.Header) > 0, cfg.AccessToken.Header != cfg.IdToken.Header))
	}
	if o.logout {
		cfg.Logout = &oidcv1.LogoutConfig{Path: "/" + vn.StringIn("cfg-logout-path", sb, alphaLower), RedirectUri: vn.String("cfg-logout-redirect", sb+1)}
		vn.Assume(vn.And(len(cfg.Logout.Path) > 1, cfg.Logout.Path != cbPath))
	}
	return &kitCfg{cfg: cfg, cbScheme: scheme, cbHost: host, cbPort: port, cbPath: cbPath}
}

// ---------------------------------------------------------------- session store model

type kitSlot struct {
	tokens *oidc.TokenResponse
	auth   *oidc.AuthorizationState
}

type kitStoreCall struct {
	op     string
	id     string
	failed bool // the call returned an error
	took   bool // the effect happened (even if the call then reported failure)
	tokens *oidc.TokenResponse
	auth   *oidc.AuthorizationState
	found  bool
}

// symStore is the abstract session map with a fault oracle at every call:
// 0 = success, 1 = fail before taking effect, 2 = fail after taking effect.
type symStore struct {
	slots  map[string]*kitSlot
	calls  []kitStoreCall
	faults bool
	yield  bool
}

var _ oidc.SessionStore = (*symStore)(nil)

func (s *symStore) fault(op string) int {
	if s.yield {
		vn.Yield("store:" + op)
	}
	if !s.faults {
		return 0
	}
	return int(vn.Int("fault-store-"+op, 0, 2))
}

func (s *symStore) SetTokenResponse(_ context.Context, id string, t *oidc.TokenResponse) error {
	f := s.fault("SetTokenResponse")
	if f == 1 {
		s.calls = append(s.calls, kitStoreCall{op: "SetTokenResponse", id: id, failed: true, tokens: t})
		return errInjected
	}
	sl := s.slots[id]
	if sl == nil {
		sl = &kitSlot{}
		s.slots[id] = sl
	}
	sl.tokens = t
	s.calls = append(s.calls, kitStoreCall{op: "SetTokenResponse", id: id, failed: f == 2, took: true, tokens: t})
	if f == 2 {
		return errInjected
	}
	return nil
}

func (s *symStore) GetTokenResponse(_ context.Context, id string) (*oidc.TokenResponse, error) {
	f := s.fault("GetTokenResponse")
	if f != 0 {
		s.calls = append(s.calls, kitStoreCall{op: "GetTokenResponse", id: id, failed: true})
		return nil, errInjected
	}
	sl := s.slots[id]
	if sl == nil || sl.tokens == nil {
		s.calls = append(s.calls, kitStoreCall{op: "GetTokenResponse", id: id, took: true})
		return nil, nil
	}
	s.calls = append(s.calls, kitStoreCall{op: "GetTokenResponse", id: id, took: true, found: true, tokens: sl.tokens})
	return sl.tokens, nil
}

func (s *symStore) SetAuthorizationState(_ context.Context, id string, a *oidc.AuthorizationState) error {
	f := s.fault("SetAuthorizationState")
	if f == 1 {
		s.calls = append(s.calls, kitStoreCall{op: "SetAuthorizationState", id: id, failed: true, auth: a})
		return errInjected
	}
	sl := s.slots[id]
	if sl == nil {
		sl = &kitSlot{}
		s.slots[id] = sl
	}
	sl.auth = a
	s.calls = append(s.calls, kitStoreCall{op: "SetAuthorizationState", id: id, failed: f == 2, took: true, auth: a})
	if f == 2 {
		return errInjected
	}
	return nil
}

func (s *symStore) GetAuthorizationState(_ context.Context, id string) (*oidc.AuthorizationState, error) {
	f := s.fault("GetAuthorizationState")
	if f != 0 {
		s.calls = append(s.calls, kitStoreCall{op: "GetAuthorizationState", id: id, failed: true})
		return nil, errInjected
	}
	sl := s.slots[id]
	if sl == nil || sl.auth == nil {
		s.calls = append(s.calls, kitStoreCall{op: "GetAuthorizationState", id: id, took: true})
		return nil, nil
	}
	s.calls = append(s.calls, kitStoreCall{op: "GetAuthorizationState", id: id, took: true, found: true, auth: sl.auth})
	return sl.auth, nil
}

func (s *symStore) ClearAuthorizationState(_ context.Context, id string) error {
	f := s.fault("ClearAuthorizationState")
	if f == 1 {
		s.calls = append(s.calls, kitStoreCall{op: "ClearAuthorizationState", id: id, failed: true})
		return errInjected
	}
	if sl := s.slots[id]; sl != nil {
		sl.auth = nil
	}
	s.calls = append(s.calls, kitStoreCall{op: "ClearAuthorizationState", id: id, failed: f == 2, took: true})
	if f == 2 {
		return errInjected
	}
	return nil
}

func (s *symStore) RemoveSession(_ context.Context, id string) error {
	f := s.fault("RemoveSession")
	if f == 1 {
		s.calls = append(s.calls, kitStoreCall{op: "RemoveSession", id: id, failed: true})
		return errInjected
	}
	delete(s.slots, id)
	s.calls = append(s.calls, kitStoreCall{op: "RemoveSession", id: id, failed: f == 2, took: true})
	if f == 2 {
		return errInjected
	}
	return nil
}

func (s *symStore) RemoveAllExpired(context.Context) error { return nil }

type kitFactory struct{ store oidc.SessionStore }

func (f *kitFactory) Get(*oidcv1.OIDCConfig) oidc.SessionStore { return f.store }

// kitTokens returns an arbitrary stored token response whose id token is a harness JWT.
type kitTokOpts struct {
	name       string
	clientID   string
	wellFormed bool
}

func kitStoredTokens(o kitTokOpts) *oidc.TokenResponse {
	n := o.name
	wf := true
	if !o.wellFormed {
		wf = vn.Bool(n + "-wellformed")
	}
	id := vn.JWT(n+"-id", wf, int(vn.Int(n+"-nonce-kind", 0, 1)), vn.StringIn(n+"-nonce", 2, alphaID), 1, o.clientID, "", vn.Time(n+"-exp"), vn.Bool(n+"-sig"))
	t := &oidc.TokenResponse{IDToken: id}
	t.AccessToken = vn.Secret(vn.StringIn(n+"-access", 2, alphaID), 8)
	t.RefreshToken = vn.Secret(vn.StringIn(n+"-refresh", 2, alphaID), 4)
	t.AccessTokenExpiresAt = vn.TimeOrZero(n + "-access-exp")
	return t
}

func kitAuthState(n string) *oidc.AuthorizationState {
	a := &oidc.AuthorizationState{
		State:        vn.StringIn(n+"-state", 2, alphaID),
		Nonce:        vn.StringIn(n+"-nonce", 2, alphaID),
		RequestedURL: vn.String(n+"-url", 3),
		CodeVerifier: vn.Secret(vn.StringIn(n+"-verifier", 2, alphaID), 2),
	}
	vn.Assume(vn.And(len(a.State) > 0, len(a.Nonce) > 0, len(a.RequestedURL) > 0, len(a.CodeVerifier) > 0))
	return a
}

// kitStore builds an arbitrary abstract store state with nslots sessions.
// content per slot: 0 pending login, 1 tokens, 2 tokens + pending login state.
func kitStore(nslots int, clientID string, faults bool, malformedTokens bool) *symStore {
	s := &symStore{slots: map[string]*kitSlot{}, faults: faults}
	for i := 0; i < nslots; i++ {
		n := "slot" + string(rune('0'+i))
		id := vn.StringIn(n+"-id", vn.Bound("session-id-bytes", 3), alphaID)
		vn.Assume(len(id) > 0)
		sl := &kitSlot{}
		switch vn.Choice(n+"-content", 3) {
		case 0:
			sl.auth = kitAuthState(n)
		case 1:
			sl.tokens = kitStoredTokens(kitTokOpts{name: n, clientID: clientID, wellFormed: !malformedTokens})
		default:
			sl.tokens = kitStoredTokens(kitTokOpts{name: n, clientID: clientID, wellFormed: true})
			sl.auth = kitAuthState(n)
		}
		s.slots[id] = sl
	}
	return s
}

// ---------------------------------------------------------------- IdP model

type kitIdPCall struct {
	method string
	url    string
	form   map[string][]string
	auth   string
	ctype  string
}

// symIdP is the token endpoint: it records every request and answers with an arbitrary
// transport error, status or body (abstract JSON document built from arbitrary member kinds).
type symIdP struct {
	calls    []kitIdPCall
	clientID string
	nonce    string // nonce to embed when the model decides to answer "correctly"
	now      time.Time
	honest   bool
	yield    bool
	lastBody kitBody
	answer   int // what the last request was answered with (answerKind), -1 before any request
	answerKind int
	idExp      time.Time
	status     int
	bodyText   string
	ctParams   string
}

type kitBody struct {
	kind      int
	idToken   string
	idKind    int
	ttKind    int
	access    string
	refresh   string
	tokenType string
	expiresIn int64
	expKind   int
}

// kitHeaderGet reads a request header the way a server does: case-insensitively.
func kitHeaderGet(h http.Header, name string) string {
	val := ""
	for k, v := range h {
		if strings.EqualFold(k, name) && len(v) > 0 {
			val = v[0]
		}
	}
	return val
}

// prepare draws all nondeterminism of the provider before the check runs, so that states which
// took different provider behaviours consumed the same inputs and can be merged where they
// reconverge. answerKind: 0 transport error, 1 non-200 status, 2 body breaks off, 3 body.
func (p *symIdP) prepare() {
	p.answerKind = 3
	p.status = 500
	if !p.honest {
		p.answerKind = int(vn.Int("idp-answer", 0, 3))
		p.status = int(vn.Int("idp-status", 100, 599))
		vn.Assume(p.status != 200)
	}
	p.bodyText = p.body()
	p.ctParams = vn.StringIn("idp-content-type-params", 16, "; =-charsetUTF8utf")
	vn.Assume(vn.Or(p.ctParams == "", p.ctParams == ";charset=UTF-8", p.ctParams == "; charset=utf-8"))
}

func (p *symIdP) RoundTrip(req *http.Request) (*http.Response, error) {
	if p.yield {
		vn.Yield("idp")
	}
	call := kitIdPCall{method: req.Method, auth: kitHeaderGet(req.Header, "authorization"), ctype: kitHeaderGet(req.Header, "content-type")}
	if req.Body != nil {
		b, _ := io.ReadAll(req.Body)
		form, _ := url.ParseQuery(string(b))
		call.form = form
	}
	p.calls = append(p.calls, call)
	p.answer = p.answerKind
	if p.answerKind == 0 {
		return nil, errInjected
	}
	if p.answerKind == 1 {
		return &http.Response{StatusCode: p.status, Body: io.NopCloser(strings.NewReader(""))}, nil
	}
	if p.answerKind == 2 {
		return &http.Response{StatusCode: 200, Body: io.NopCloser(vn.FailingReader())}, nil
	}
	// RFC 6749 5.1: the token response is application/json; media-type parameters are allowed
	ct := "application/json" + p.ctParams
	return &http.Response{StatusCode: 200, Header: http.Header{"Content-Type": {ct}}, Body: io.NopCloser(strings.NewReader(p.bodyText))}, nil
}

// body builds the token-endpoint answer. All kinds are symbolic integers (the JSON / JWT stubs
// fork on them lazily); an honest provider answers with a compliant object.
func (p *symIdP) body() string {
	b := kitBody{kind: 3, idKind: 1, ttKind: 1, tokenType: "Bearer"}
	wellFormed, nonceKind, naud, sig := true, 1, 1, true
	nonce, aud0 := p.nonce, p.clientID
	if p.honest {
		// a compliant provider: audience as a string or a two-element array containing the client
		// id, token_type any capitalisation of "bearer"
		naud = int(vn.Int("idp-naud", 1, 2))
		b.tokenType = vn.String("idp-token-type", 6)
		vn.Assume(strings.EqualFold(b.tokenType, "Bearer"))
	}
	if !p.honest {
		b.kind = int(vn.Int("idp-body-kind", 0, 3))
		b.idKind = int(vn.Int("idp-id-token-kind", 0, 5))
		wellFormed = vn.Bool("idp-id-token-wellformed")
		nonceKind = int(vn.Int("idp-nonce-kind", 0, int64(vn.Bound("idp-nonce-kinds", 5))-1))
		naud = int(vn.Int("idp-naud", 0, 2))
		nonce = vn.StringIn("idp-nonce", 2, alphaID)
		aud0 = vn.StringIn("idp-aud0", vn.Bound("cfg-string-bytes", 3), alphaID)
		sig = vn.Bool("idp-sig")
		b.tokenType = vn.String("idp-token-type", 6)
		b.ttKind = int(vn.Int("idp-token-type-kind", 0, 5))
	}
	doc := vn.NewJSON("idp-body", b.kind)
	p.idExp = vn.Time("idp-exp")
	b.idToken = vn.JWT("idp-id", wellFormed, nonceKind, nonce, naud, aud0, vn.StringIn("idp-aud1", 2, alphaID), p.idExp, sig)
	vn.JSONStr(doc, "id_token", b.idKind, b.idToken)
	vn.JSONStr(doc, "token_type", b.ttKind, b.tokenType)
	b.access = vn.Secret(vn.StringIn("idp-access", 2, alphaID), 8)
	b.refresh = vn.Secret(vn.StringIn("idp-refresh", 2, alphaID), 4)
	vn.JSONStr(doc, "access_token", 1, b.access)
	vn.JSONStr(doc, "refresh_token", 1, b.refresh)
	// expires_in: 0 absent, 2 integer; a dishonest provider may also send a string (1), a
	// non-integer number (3), another kind (4) or null (5)
	if p.honest {
		b.expKind = int(vn.Int("idp-expires-kind", 0, 1)) * 2
		b.expiresIn = vn.Int("idp-expires-in", 1, 2147483647)
	} else {
		b.expKind = int(vn.Int("idp-expires-kind", 0, 5))
		b.expiresIn = vn.Int("idp-expires-in", -2147483648, 2147483647)
	}
	vn.JSONNum(doc, "expires_in", b.expKind, b.expiresIn)
	p.lastBody = b
	return vn.JSONText(doc)
}

// ---------------------------------------------------------------- key source model

type symJWKS struct {
	cfg   *oidcv1.OIDCConfig
	calls int
	fail  bool
	other bool
	failNext bool
}

func (j *symJWKS) Get(_ context.Context, cfg *oidcv1.OIDCConfig) (jwk.Set, error) {
	j.calls++
	vn.Assert("kit/jwks-asked-with-filter-config", cfg == j.cfg)
	if j.failNext {
		j.fail = true
		return nil, errInjected
	}
	return vn.KeySet("good"), nil
}

// ---------------------------------------------------------------- generator model

// symGen returns fresh arbitrary values (the real random generator is the subject of C06).
type symGen struct {
	n                                   int
	sessionID, nonce, state, verifier string
}

func (g *symGen) GenerateSessionID() string {
	g.n++
	g.sessionID = vn.StringIn("gen-session-id", vn.Bound("session-id-bytes", 3), alphaID)
	vn.Assume(len(g.sessionID) > 0)
	return g.sessionID
}
func (g *symGen) GenerateNonce() string {
	g.nonce = vn.StringIn("gen-nonce", 2, alphaID)
	vn.Assume(len(g.nonce) > 0)
	return g.nonce
}
func (g *symGen) GenerateState() string {
	g.state = vn.StringIn("gen-state", 2, alphaID)
	vn.Assume(len(g.state) > 0)
	return g.state
}
func (g *symGen) GenerateCodeVerifier() string {
	g.verifier = vn.Secret(vn.StringIn("gen-verifier", 2, alphaID), 2)
	vn.Assume(len(g.verifier) > 0)
	return g.verifier
}

// ---------------------------------------------------------------- handler and requests

type kitEnv struct {
	cfg   *oidcv1.OIDCConfig
	store *symStore
	idp   *symIdP
	jwks  *symJWKS
	gen   *symGen
	now   time.Time
	h     *oidcHandler
}

func kitHandler(cfg *oidcv1.OIDCConfig, store *symStore, faults bool, honestIdP bool) *kitEnv {
	env := &kitEnv{cfg: cfg, store: store, now: vn.Time("now")}
	env.idp = &symIdP{clientID: cfg.ClientId, honest: honestIdP, now: env.now, answer: -1}
	env.idp.prepare()
	env.jwks = &symJWKS{cfg: cfg}
	if faults {
		env.jwks.failNext = vn.Bool("fault-jwks")
	}
	env.gen = &symGen{}
	env.h = &oidcHandler{
		log:        internal.Logger(internal.Authz),
		config:     cfg,
		jwks:       env.jwks,
		sessions:   &kitFactory{store: store},
		sessionGen: env.gen,
		clock:      oidc.Clock{NowFn: func() time.Time { return env.now }},
		httpClient: &http.Client{Transport: env.idp},
	}
	return env
}

func kitHTTPReq(scheme, host, path string, headers map[string]string) *envoy.CheckRequest {
	return &envoy.CheckRequest{
		Attributes: &envoy.AttributeContext{
			Request: &envoy.AttributeContext_Request{
				Http: &envoy.AttributeContext_HttpRequest{
					// any method: a logout form may POST, a prefetch may HEAD; nothing in the properties
					// depends on it
					Method: vn.StringIn("req-method", 7, "ABCDEFGHIJKLMNOPQRSTUVWXYZ"), Scheme: scheme, Host: host, Path: path, Headers: headers,
				},
			},
		},
	}
}

// kitCookieHeaders returns request headers with one of the cookie-header shapes.
func kitCookieHeaders(cfg *oidcv1.OIDCConfig, value string) map[string]string {
	name := getCookieName(cfg)
	switch vn.Choice("cookie-shape", vn.Bound("cookie-shapes", 4)) {
	case 0:
		return map[string]string{}
	case 1:
		return map[string]string{"cookie": name + "=" + value}
	case 2:
		return map[string]string{"cookie": vn.StringIn("other-cookie", 3, alphaLower+"=") + "; " + name + "=" + value}
	case 3:
		return map[string]string{"cookie": vn.String("raw-cookie", vn.Bound("raw-cookie-bytes", 8))}
	}
	return map[string]string{"cookie": name + "=" + value + ";" + vn.StringIn("other-cookie", 3, alphaLower+"= ")}
}

func newCheckResponse() *envoy.CheckResponse { return &envoy.CheckResponse{} }
func ctxBackground() context.Context        { return context.Background() }

// kitClientHeaders: headers any client can put on a request and which some deployments use to
// describe the "original" request (forwarding headers). The properties speak of the scheme, host
// and path Envoy reports for the request; these headers must not change what is remembered,
// compared or answered. Every value is an arbitrary short string (possibly empty).
func kitClientHeaders() map[string]string {
	h := map[string]string{}
	for _, name := range []string{"x-forwarded-proto", "x-forwarded-host", "x-forwarded-port", "x-forwarded-prefix", "x-original-url", "forwarded"} {
		h[name] = vn.String("hdr-"+name, 5) // present, possibly empty (no fork per header)
	}
	return h
}
