package authz

import (
	"context"

	envoy "github.com/envoyproxy/go-control-plane/envoy/service/auth/v3"

	"github.com/istio-ecosystem/authservice/internal/oidc"
	"github.com/istio-ecosystem/authservice/internal/vn"
)

func init() {
	verifHarnesses["VerifC11_Refresh"] = VerifC11_Refresh
}

// VerifC11_Refresh: a session holds expired tokens and a refresh token R. The check sends the
// refresh grant with R (the store's current value) and the client credentials; on a compliant
// answer the request is allowed with the merged result, which is what the store then holds; on
// any failure the request is not allowed, the stale session is removed and the browser is sent
// to log in. A second expiry uses the rotated refresh token.
func VerifC11_Refresh() {
	kc := kitConfig(kitCfgOpts{accessToken: vn.Choice("cfg-access-token", 2) == 1})
	cfg := kc.cfg
	store := &symStore{slots: map[string]*kitSlot{}}
	sid := vn.StringIn("sid", vn.Bound("session-id-bytes", 3), alphaID)
	vn.Assume(len(sid) > 0)
	old := kitStoredTokens(kitTokOpts{name: "held", clientID: cfg.ClientId, wellFormed: true})
	vn.Assume(old.RefreshToken != "")
	sl := &kitSlot{tokens: old}
	if vn.Choice("has-stale-login-state", 2) == 1 {
		sl.auth = kitAuthState("held")
	}
	store.slots[sid] = sl
	compliant := vn.Choice("provider-compliant", 2) == 1
	env := kitHandler(cfg, store, false, compliant)
	// the held tokens are expired by the reference predicate
	vn.Assume(!refFresh(env, old))
	if compliant {
		// a compliant answer: the new id token (when present it is well formed) carries no nonce
		// or the session's, is signed by the provider and has the client as audience
		env.idp.nonce = ""
	}
	headers := map[string]string{"cookie": getCookieName(cfg) + "=" + sid}
	path := "/" + vn.StringIn("path", 3, alphaLower)
	req := kitHTTPReq("https", vn.StringIn("host", 3, alphaHost), path, headers)
	vn.Assume(!matchesCallbackPath(env.h.log, cfg, req.GetAttributes().GetRequest().GetHttp()))
	resp := &envoy.CheckResponse{}
	err := env.h.Process(context.Background(), req, resp)
	vn.Assert("C11/verdict", err == nil)
	vn.Assert("C11/one-token-request", len(env.idp.calls) == 1)
	if len(env.idp.calls) != 1 {
		return
	}
	call := env.idp.calls[0]
	one := func(k string) string {
		v := call.form[k]
		vn.Assert("C11/form-member-once:"+k, len(v) == 1)
		if len(v) != 1 {
			return ""
		}
		return v[0]
	}
	vn.Assert("C11/grant-type", one("grant_type") == "refresh_token")
	vn.Assert("C11/uses-the-stored-refresh-token", one("refresh_token") == old.RefreshToken)
	vn.Assert("C11/client-id", one("client_id") == cfg.ClientId)
	vn.Assert("C11/client-secret", one("client_secret") == cfg.GetClientSecret())
	body := env.idp.lastBody
	now := store.slots[sid]
	if kitOK(resp) {
		vn.Cover("C11/refreshed", true)
		vn.Assert("C11/ok-only-after-a-200-answer", vn.And(env.idp.answer == 3, body.kind == 3))
		vn.Assert("C11/session-kept", vn.And(now != nil, now != nil && now.tokens != nil))
		if now == nil || now.tokens == nil {
			return
		}
		t := now.tokens
		// reference merge
		wantID := old.IDToken
		if _, perr := oidc.ParseToken(body.idToken); body.idKind == 1 && perr == nil {
			wantID = body.idToken
		}
		vn.Assert("C11/merged-id-token", t.IDToken == wantID)
		wantAT := old.AccessToken
		if body.access != "" {
			wantAT = body.access
		}
		vn.Assert("C11/merged-access-token", t.AccessToken == wantAT)
		wantRT := old.RefreshToken
		if body.refresh != "" {
			wantRT = body.refresh
			vn.Cover("C11/rotated", true)
		}
		vn.Assert("C11/merged-refresh-token", t.RefreshToken == wantRT)
		if !(body.expKind == 2 && body.expiresIn > 0) {
			vn.Assert("C11/expiry-kept-when-omitted", t.AccessTokenExpiresAt.Equal(old.AccessTokenExpiresAt))
		} else {
			vn.Assert("C11/expiry-updated", !t.AccessTokenExpiresAt.Before(env.now))
		}
		vn.Assert("C11/merged-id-token-valid", refValidIDToken(t.IDToken, cfg.ClientId))
		// forwarded headers come from the merged result
		idVal, idN := kitHeader(resp.GetOkResponse().GetHeaders(), cfg.IdToken.Header)
		wantHdr := t.IDToken
		if cfg.IdToken.Preamble != "" {
			wantHdr = cfg.IdToken.Preamble + " " + t.IDToken
		}
		vn.Assert("C11/forwards-the-merged-id-token", vn.And(idN == 1, idVal == wantHdr))
		return
	}
	// not allowed
	vn.Cover("C11/refresh-failed", true)
	if compliant {
		// a compliant answer may still fail validation only through the key source; none here
		vn.Assert("C11/compliant-refresh-is-allowed", !refValidIDToken(func() string {
			if body.idKind == 1 {
				return body.idToken
			}
			return old.IDToken
		}(), cfg.ClientId))
	}
	vn.Assert("C11/stale-session-removed", vn.Or(now == nil, now != nil && now.tokens == nil))
	loc, nl := kitHeader(resp.GetDeniedResponse().GetHeaders(), "location")
	vn.Assert("C11/sent-to-log-in-again", vn.And(nl == 1, len(loc) > 0, resp.GetDeniedResponse().GetStatus().GetCode() == 302, env.gen.n == 1))
}
