package authz

import (
	"context"
	"net/http"

	oidcv1 "github.com/istio-ecosystem/authservice/config/gen/go/v1/oidc"

	envoy "github.com/envoyproxy/go-control-plane/envoy/service/auth/v3"

	"github.com/istio-ecosystem/authservice/internal/vn"
)

func init() {
	verifHarnesses["VerifC09_LogoutVsInFlightCheck"] = VerifC09_LogoutVsInFlightCheck
	verifHarnesses["VerifC09_LogoutStep"] = VerifC09_LogoutStep
	verifHarnesses["VerifC09_LogoutRedirectConfiguredOrDiscovered"] = VerifC09_LogoutRedirectConfiguredOrDiscovered
}

// VerifC09_LogoutStep: sequential part. A logout request from an arbitrary state (with store
// faults): the answer redirects to the configured end-session URI, expires the cookie and
// carries no-cache directives; the session is gone afterwards; if the session cannot be removed
// the answer is the session-error denial, not a successful logout.
func VerifC09_LogoutStep() {
	r := kitStep(kitStepOpts{pathShape: pathLogout, faults: true, honestIdP: true})
	cfg := r.kc.cfg
	vn.Assert("C09/verdict", vn.And(r.err == nil, !kitOK(r.resp), r.resp.GetDeniedResponse() != nil))
	d := r.resp.GetDeniedResponse()
	removeFailed := false
	for i := range r.store.calls {
		c := &r.store.calls[i]
		if c.op == "RemoveSession" && c.failed {
			removeFailed = true
		}
	}
	loc, nl := kitHeader(d.GetHeaders(), "location")
	if removeFailed {
		vn.Cover("C09/remove-failed", true)
		vn.Assert("C09/failed-removal-is-not-a-successful-logout", vn.And(nl == 0, d.GetBody() == "There was an error accessing your session data. Try again later."))
		return
	}
	vn.Cover("C09/logged-out", true)
	cookie, nc := kitHeader(d.GetHeaders(), "set-cookie")
	vn.Assert("C09/redirects-to-the-end-session-uri", vn.And(nl == 1, loc == cfg.Logout.RedirectUri, d.GetStatus().GetCode() == 302))
	vn.Assert("C09/expires-the-cookie", vn.And(nc == 1, cookie == getCookieName(cfg)+"=deleted; HttpOnly; Secure; SameSite=Lax; Path=/; Max-Age=0"))
	vn.Assert("C09/no-cache", kitNoCache(r.resp))
	if r.carried != "" {
		_, still := r.store.slots[r.carried]
		vn.Assert("C09/session-gone", !still)
		// a further check with the same cookie is not OK
		resp2 := &envoy.CheckResponse{}
		r.store.faults = false
		headers := map[string]string{"cookie": getCookieName(cfg) + "=" + r.carried}
		req2 := kitHTTPReq("https", vn.StringIn("host2", 3, alphaHost), "/"+vn.StringIn("path2", 3, alphaLower), headers)
		err := r.env.h.Process(context.Background(), req2, resp2)
		vn.Assert("C09/no-ok-after-logout-sequential", vn.And(err == nil, !kitOK(resp2)))
	}
}

// VerifC09_LogoutVsInFlightCheck: a logout and an ordinary check on the same session run
// concurrently; the scheduler interleaves them at every store call and at the token-endpoint
// call. After both have been answered, a further check with the same cookie must not be OK.
func VerifC09_LogoutVsInFlightCheck() {
	kc := kitConfig(kitCfgOpts{logout: true, accessToken: vn.Choice("cfg-access-token", 2) == 1})
	cfg := kc.cfg
	store := &symStore{slots: map[string]*kitSlot{}}
	sid := vn.StringIn("sid", vn.Bound("session-id-bytes", 3), alphaID)
	vn.Assume(len(sid) > 0)
	held := kitStoredTokens(kitTokOpts{name: "held", clientID: cfg.ClientId, wellFormed: true})
	store.slots[sid] = &kitSlot{tokens: held}
	env := kitHandler(cfg, store, false, true)
	env.idp.nonce = ""
	headers := map[string]string{"cookie": getCookieName(cfg) + "=" + sid}
	host := vn.StringIn("host", 3, alphaHost)
	app := kitHTTPReq("https", host, "/"+vn.StringIn("path", 3, alphaLower), headers)
	vn.Assume(!matchesCallbackPath(env.h.log, cfg, app.GetAttributes().GetRequest().GetHttp()))
	vn.Assume(!matchesLogoutPath(env.h.log, cfg, app.GetAttributes().GetRequest().GetHttp()))
	logout := kitHTTPReq("https", host, cfg.Logout.Path, headers)

	respL, respA := &envoy.CheckResponse{}, &envoy.CheckResponse{}
	store.yield, env.idp.yield = true, true
	vn.Spawn("logout", func() { _ = env.h.Process(context.Background(), logout, respL) })
	vn.Spawn("check", func() { _ = env.h.Process(context.Background(), app, respA) })
	vn.RunAll()
	store.yield, env.idp.yield = false, false

	// signature of the history: did the in-flight check write the session after the logout removed it?
	removedAt, wroteAt := -1, -1
	for i := range store.calls {
		c := &store.calls[i]
		if c.op == "RemoveSession" && c.id == sid && removedAt < 0 {
			removedAt = i
		}
		if c.op == "SetTokenResponse" && c.id == sid {
			wroteAt = i
		}
	}
	vn.Assert("C09/logout-answered", !kitOK(respL))
	if removedAt >= 0 && wroteAt > removedAt {
		vn.Tag("SetTokenResponse-after-RemoveSession")
	}
	respZ := &envoy.CheckResponse{}
	err := env.h.Process(context.Background(), app, respZ)
	vn.Cover("C09/concurrent-history", true)
	vn.Assert("C09/no-ok-after-logout", vn.And(err == nil, !kitOK(respZ)))
}

// VerifC09_LogoutRedirectConfiguredOrDiscovered: "redirects to the configured (or discovered)
// end-session URI". With a discovery URI, resolving the endpoints must leave a configured
// logout redirect alone whatever the provider publishes, fall back to the published
// end_session_endpoint only when none is configured, and fail when there is neither.
func VerifC09_LogoutRedirectConfiguredOrDiscovered() {
	configured := vn.StringIn("configured-logout-redirect", 3, alphaID)
	published := vn.StringIn("published-end-session-endpoint", 3, alphaID)
	doc := vn.NewJSON("discovery", 3)
	vn.JSONStr(doc, "authorization_endpoint", 1, "https://idp/auth")
	vn.JSONStr(doc, "token_endpoint", 1, "https://idp/token")
	vn.JSONStr(doc, "jwks_uri", 1, "https://idp/keys")
	pubKind := vn.Choice("end-session-endpoint-published", 2)
	if pubKind == 0 {
		published = ""
	} else {
		vn.Assume(published != "")
	}
	vn.JSONStr(doc, "end_session_endpoint", pubKind, published)
	client := &http.Client{Transport: &kitDiscoveryRT{body: vn.JSONText(doc)}}
	cfg := &oidcv1.OIDCConfig{ConfigurationUri: "https://idp/.well-known/openid-configuration", Logout: &oidcv1.LogoutConfig{Path: "/logout", RedirectUri: configured}}
	err := loadWellKnownConfig(client, cfg)
	switch {
	case configured != "":
		vn.Cover("C09/configured-logout-redirect-with-discovery", published != "")
		vn.Assert("C09/configured-logout-redirect-survives-discovery", vn.And(err == nil, cfg.GetLogout().GetRedirectUri() == configured))
	case published != "":
		vn.Assert("C09/discovered-end-session-endpoint-used-when-none-configured", vn.And(err == nil, cfg.GetLogout().GetRedirectUri() == published))
	default:
		vn.Assert("C09/no-end-session-uri-at-all-is-an-error", err != nil)
	}
}
