package authz

import (
	"context"
	"encoding/base64"
	"net/url"

	envoy "github.com/envoyproxy/go-control-plane/envoy/service/auth/v3"

	inthttp "github.com/istio-ecosystem/authservice/internal/http"
	"github.com/istio-ecosystem/authservice/internal/vn"
)

func init() {
	verifHarnesses["VerifC04_Callback"] = VerifC04_Callback
	verifHarnesses["VerifC04_AnyPath"] = VerifC04_AnyPath
	verifHarnesses["VerifC04_LoginRedirectBindsVerifier"] = VerifC04_LoginRedirectBindsVerifier
	verifHarnesses["VerifC04_ReplayAndCrossSession"] = VerifC04_ReplayAndCrossSession
}

// kitMonitorCodeExchanges is the token-endpoint monitor of the property: every authorization-code
// exchange was sent by a request whose state parameter equals the state stored for the session
// named by its cookie, with that session's verifier, the request's code, the configured
// redirect URI and the client's credentials.
func kitMonitorCodeExchanges(r *kitStepResult) int {
	cfg := r.kc.cfg
	n := 0
	for i := range r.env.idp.calls {
		call := &r.env.idp.calls[i]
		gt := call.form["grant_type"]
		if len(gt) != 1 || gt[0] != "authorization_code" {
			continue
		}
		n++
		vn.Cover("C04/exchange", true)
		vn.Assert("C04/exchange-needs-a-session-with-pending-login", vn.And(r.carried != "", r.pre != nil, r.pre != nil && r.pre.auth != nil))
		if r.pre == nil || r.pre.auth == nil {
			continue
		}
		_, query, _ := inthttp.GetPathQueryFragment(r.req.GetAttributes().GetRequest().GetHttp().GetPath())
		params, perr := url.ParseQuery(query)
		vn.Assert("C04/exchange-needs-a-parsable-query", perr == nil)
		vn.Assert("C04/state-equals-the-session's-state", params.Get("state") == r.pre.auth.State)
		one := func(k string) string {
			v := call.form[k]
			vn.Assert("C04/form-member-once:"+k, len(v) == 1)
			if len(v) != 1 {
				return ""
			}
			return v[0]
		}
		vn.Assert("C04/code-is-the-request's", one("code") == params.Get("code"))
		vn.Assert("C04/verifier-is-the-session's", one("code_verifier") == r.pre.auth.CodeVerifier)
		vn.Assert("C04/redirect-uri-is-the-configured-callback", one("redirect_uri") == cfg.CallbackUri)
		vn.Assert("C04/client-authentication", call.auth == "Basic "+base64.StdEncoding.EncodeToString([]byte(cfg.ClientId+":"+cfg.GetClientSecret())))
		vn.Assert("C04/form-content-type", call.ctype == "application/x-www-form-urlencoded")
		vn.Assert("C04/post", call.method == "POST")
	}
	return n
}

func VerifC04_Callback() {
	r := kitStep(kitStepOpts{pathShape: pathCallback, honestIdP: false})
	kitMonitorCodeExchanges(r)
}

func VerifC04_AnyPath() {
	r := kitStep(kitStepOpts{pathShape: pathAny, honestIdP: false})
	kitMonitorCodeExchanges(r)
}

// VerifC04_LoginRedirectBindsVerifier: the login redirect stores, under the new session, exactly
// the state, nonce and verifier it generated (the S256 challenge of that verifier is what the
// Location carries: C13).
func VerifC04_LoginRedirectBindsVerifier() {
	r := kitStep(kitStepOpts{pathShape: pathAny, honestIdP: true})
	for i := range r.store.calls {
		c := &r.store.calls[i]
		if c.op != "SetAuthorizationState" {
			continue
		}
		vn.Cover("C04/login-state-stored", true)
		g := r.env.gen
		vn.Assert("C04/stored-under-the-new-session", c.id == g.sessionID)
		vn.Assert("C04/stored-state-nonce-verifier-are-the-generated-ones", vn.And(c.auth.State == g.state, c.auth.Nonce == g.nonce, c.auth.CodeVerifier == g.verifier))
	}
}

// VerifC04_ReplayAndCrossSession: a successful exchange consumes the login state. Replaying the
// same callback, or presenting it under another session (absent, pending with any state,
// authenticated), causes no second exchange unless that session's own stored state equals the
// state parameter, and never yields OK.
func VerifC04_ReplayAndCrossSession() {
	kc := kitConfig(kitCfgOpts{accessToken: vn.Choice("cfg-access-token", 2) == 1})
	cfg := kc.cfg
	store := kitStore(1, cfg.ClientId, false, false) // another session: slot0
	sid := vn.StringIn("sid", vn.Bound("session-id-bytes", 3), alphaID)
	vn.Assume(len(sid) > 0)
	if _, clash := store.slots[sid]; clash {
		return
	}
	pending := kitAuthState("victim")
	store.slots[sid] = &kitSlot{auth: pending}
	env := kitHandler(cfg, store, false, true)
	env.idp.nonce = pending.Nonce
	env.idp.prepare()
	if cfg.AccessToken != nil {
		vn.Assume(env.idp.lastBody.access != "")
	}
	cbHost := kc.cbHost
	if kc.cbPort != "" {
		cbHost += ":" + kc.cbPort
	}
	code := vn.StringIn("code", 2, alphaID)
	vn.Assume(len(code) > 0)
	target := kc.cbPath + "?state=" + pending.State + "&code=" + code
	cookie := func(id string) map[string]string { return map[string]string{"cookie": getCookieName(cfg) + "=" + id} }
	resp := &envoy.CheckResponse{}
	err := env.h.Process(context.Background(), kitHTTPReq("https", cbHost, target, cookie(sid)), resp)
	done := store.slots[sid] != nil && store.slots[sid].tokens != nil
	vn.Assert("C04/login-succeeds", vn.And(err == nil, done, len(env.idp.calls) == 1))
	if !done {
		return
	}
	vn.Assert("C04/login-state-consumed", store.slots[sid].auth == nil)
	if vn.Choice("second-request", 2) == 0 {
		// replay under the same session
		resp2 := &envoy.CheckResponse{}
		err = env.h.Process(context.Background(), kitHTTPReq("https", cbHost, target, cookie(sid)), resp2)
		vn.Cover("C04/replayed", true)
		vn.Assert("C04/replay-causes-no-second-exchange", len(env.idp.calls) == 1)
		vn.Assert("C04/replay-is-not-ok", vn.And(err == nil, !kitOK(resp2)))
		return
	}
	// the same callback under another session id
	other := vn.StringIn("other-sid", vn.Bound("session-id-bytes", 3), alphaID)
	vn.Assume(vn.And(len(other) > 0, other != sid))
	var otherState string
	hasOther := false
	if sl := store.slots[other]; sl != nil && sl.auth != nil {
		otherState, hasOther = sl.auth.State, true
	}
	resp3 := &envoy.CheckResponse{}
	err = env.h.Process(context.Background(), kitHTTPReq("https", cbHost, target, cookie(other)), resp3)
	vn.Cover("C04/cross-session", true)
	vn.Assert("C04/cross-session-is-not-ok", vn.And(err == nil, !kitOK(resp3)))
	vn.Assert("C04/cross-session-exchange-only-with-that-session's-state", vn.Or(len(env.idp.calls) == 1, vn.And(hasOther, otherState == pending.State)))
}
