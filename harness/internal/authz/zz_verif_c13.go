package authz

import (
	"context"
	"net/url"
	"strings"

	envoy "github.com/envoyproxy/go-control-plane/envoy/service/auth/v3"
	"golang.org/x/oauth2"

	"github.com/istio-ecosystem/authservice/internal/oidc"
	"github.com/istio-ecosystem/authservice/internal/vn"
)

func init() {
	verifHarnesses["VerifC13_LoginRedirect"] = VerifC13_LoginRedirect
	verifHarnesses["VerifC13_ReturnToRequestedURL"] = VerifC13_ReturnToRequestedURL
}

const alphaQuery = "abcdefghijklmnopqrstuvwxyz=&"

func kitNoCache(resp *envoy.CheckResponse) bool {
	hs := resp.GetDeniedResponse().GetHeaders()
	cc, n1 := kitHeader(hs, "cache-control")
	pr, n2 := kitHeader(hs, "pragma")
	return vn.And(n1 == 1, n2 == 1, cc == "no-cache", pr == "no-cache")
}

// VerifC13_LoginRedirect: for every authorization endpoint (with or without a query of its own),
// client id, callback, scopes and issued values, the Location of the login redirect is the
// endpoint with exactly the eight parameters appended to its query (properly separated), and the
// answer carries the no-cache directives.
func VerifC13_LoginRedirect() {
	kc := kitConfig(kitCfgOpts{})
	cfg := kc.cfg
	sb := vn.Bound("cfg-string-bytes", 3)
	a0 := vn.URL("https", vn.StringIn("auth-host", sb+1, alphaHost), "", "/"+vn.StringIn("auth-path", sb, alphaLower), "")
	// endpoint shapes: no query; own query; own query with a trailing '&'; a bare trailing '?'
	aq := ""
	shape := vn.Choice("auth-uri-shape", 4)
	switch shape {
	case 0:
		cfg.AuthorizationUri = a0
	case 1, 2:
		aq = vn.StringIn("auth-query", sb+2, alphaQuery)
		vn.Assume(len(aq) > 0)
		if shape == 2 {
			aq += "&"
		}
		cfg.AuthorizationUri = a0 + "?" + aq
	default:
		cfg.AuthorizationUri = a0 + "?"
	}
	if vn.Choice("extra-scope", 2) == 1 {
		cfg.Scopes = []string{vn.StringIn("scope", sb, alphaLower), "openid"}
	}
	cfg.ClientId = vn.String("client-id-any-bytes", sb)
	vn.Assume(vn.And(len(cfg.ClientId) > 0, !strings.Contains(cfg.ClientId, ":")))
	store := kitStore(0, cfg.ClientId, false, false)
	env := kitHandler(cfg, store, false, true)
	req := kitHTTPReq("https", vn.String("host", 4), vn.String("path", vn.Bound("path-bytes", 6)), map[string]string{})
	resp := &envoy.CheckResponse{}
	err := env.h.Process(context.Background(), req, resp)
	vn.Assert("C13/redirect-returned", vn.And(err == nil, resp.GetDeniedResponse() != nil))
	hs := resp.GetDeniedResponse().GetHeaders()
	loc, n := kitHeader(hs, "location")
	vn.Assert("C13/one-location", n == 1)
	vn.Assert("C13/status-302", resp.GetDeniedResponse().GetStatus().GetCode() == 302)
	vn.Assert("C13/no-cache", kitNoCache(resp))
	want := url.Values{
		"response_type":         []string{"code"},
		"client_id":             []string{cfg.ClientId},
		"redirect_uri":          []string{cfg.CallbackUri},
		"scope":                 []string{strings.Join(cfg.Scopes, " ")},
		"state":                 []string{env.gen.state},
		"nonce":                 []string{env.gen.nonce},
		"code_challenge":        []string{oauth2.S256ChallengeFromVerifier(env.gen.verifier)},
		"code_challenge_method": []string{"S256"},
	}.Encode()
	vn.Cover("C13/endpoint-with-query", aq != "")
	vn.Cover("C13/endpoint-without-query", aq == "")
	if aq == "" {
		vn.Assert("C13/location-is-endpoint-plus-parameters", loc == a0+"?"+want)
	} else {
		sep := "&"
		if strings.HasSuffix(aq, "&") {
			sep = ""
		}
		vn.Assert("C13/location-keeps-endpoint-query-and-appends-parameters", loc == a0+"?"+aq+sep+want)
	}
	hasOpenID := false
	for _, s := range cfg.Scopes {
		hasOpenID = vn.Or(hasOpenID, s == "openid")
	}
	vn.Assert("C13/scope-contains-openid", hasOpenID)
}

// VerifC13_ReturnToRequestedURL: login redirect for an arbitrary requested URL, then a successful
// callback: the final Location equals scheme://host + request-target of the first request, byte
// for byte, and both redirect answers carry no-cache directives.
func VerifC13_ReturnToRequestedURL() {
	kc := kitConfig(kitCfgOpts{})
	cfg := kc.cfg
	store := kitStore(0, cfg.ClientId, false, false)
	env := kitHandler(cfg, store, false, true)
	scheme := vn.StringIn("req-scheme", 5, "htps")
	host := vn.String("req-host", 4)
	target := vn.String("req-target", vn.Bound("path-bytes", 6)+2)
	resp1 := &envoy.CheckResponse{}
	err := env.h.Process(context.Background(), kitHTTPReq(scheme, host, target, kitClientHeaders()), resp1)
	vn.Assert("C13/step1-redirect", vn.And(err == nil, resp1.GetDeniedResponse() != nil, kitNoCache(resp1)))
	sid := env.gen.sessionID
	st := store.slots[sid]
	vn.Assert("C13/step1-login-state-stored", vn.And(st != nil, st != nil && st.auth != nil))
	if st == nil || st.auth == nil {
		return
	}
	// step 2: the provider sends the browser back to the callback with the issued state
	env.idp.nonce = st.auth.Nonce
	env.idp.prepare()
	cbHost := kc.cbHost
	if kc.cbPort != "" {
		cbHost += ":" + kc.cbPort
	}
	code := vn.StringIn("code", 2, alphaID)
	vn.Assume(len(code) > 0)
	q := "state=" + st.auth.State + "&code=" + code
	headers := map[string]string{"cookie": getCookieName(cfg) + "=" + sid}
	resp2 := &envoy.CheckResponse{}
	err = env.h.Process(context.Background(), kitHTTPReq("https", cbHost, kc.cbPath+"?"+q, headers), resp2)
	vn.Assert("C13/step2-verdict", vn.And(err == nil, resp2.GetDeniedResponse() != nil))
	loc, n := kitHeader(resp2.GetDeniedResponse().GetHeaders(), "location")
	tokensStored := store.slots[sid] != nil && store.slots[sid].tokens != nil
	vn.Cover("C13/login-completed", tokensStored)
	if tokensStored {
		vn.Assert("C13/returns-to-the-requested-url", vn.And(n == 1, loc == scheme+"://"+host+target))
		vn.Assert("C13/step2-status-302", resp2.GetDeniedResponse().GetStatus().GetCode() == 302)
		vn.Assert("C13/step2-no-cache", kitNoCache(resp2))
	}
}

var _ = oidc.Clock{}
