package authz

import (
	"context"

	envoy "github.com/envoyproxy/go-control-plane/envoy/service/auth/v3"

	"github.com/istio-ecosystem/authservice/internal/vn"
)

func init() {
	verifHarnesses["VerifC15_Session"] = VerifC15_Session
	verifHarnesses["VerifC15_Callback"] = VerifC15_Callback
	verifHarnesses["VerifC15_Logout"] = VerifC15_Logout
	verifHarnesses["VerifC15_RequestShapes"] = VerifC15_RequestShapes
}

// kitWellFormed asserts that a check ended with a well-formed verdict.
func kitWellFormed(resp *envoy.CheckResponse, err error) {
	if err != nil {
		return
	}
	vn.Assert("C15/status-set", resp.Status != nil)
	ok := kitOK(resp)
	vn.Assert("C15/ok-without-denied-body", vn.Implies(ok, resp.GetDeniedResponse() == nil))
	vn.Assert("C15/denial-with-denied-body", vn.Implies(!ok, vn.And(resp.GetDeniedResponse() != nil, resp.GetOkResponse() == nil)))
}

func VerifC15_Session()  { verifC15Step(pathAny) }
func VerifC15_Callback() { verifC15Step(pathCallback) }
func VerifC15_Logout()   { verifC15Step(pathLogout) }

// verifC15Step: any request, any store answer (including token strings that do not parse), any
// token-endpoint answer from the JSON contract (null, non-object, members of the wrong kind,
// claims of unexpected type): the check must end with a well-formed verdict; every panic
// reachable under these inputs is a finding (panic mode "finding").
func verifC15Step(pathShape int) {
	kc := kitConfig(kitCfgOpts{accessToken: vn.Choice("cfg-access-token", 2) == 1, logout: pathShape == pathLogout || vn.Choice("cfg-logout", vn.Bound("cfg-logout-variants", 2)) == vn.Bound("cfg-logout-variants", 2)-1})
	store := kitStore(vn.Bound("store-slots", 1), kc.cfg.ClientId, true, true)
	env := kitHandler(kc.cfg, store, true, false)
	req, _ := kitArbitraryRequest(kc, pathShape)
	resp := &envoy.CheckResponse{}
	err := env.h.Process(context.Background(), req, resp)
	vn.Cover("C15/verdict", err == nil)
	kitWellFormed(resp, err)
}

// VerifC15_RequestShapes: protobuf-level request shapes with absent parts.
func VerifC15_RequestShapes() {
	kc := kitConfig(kitCfgOpts{accessToken: false, logout: true})
	store := kitStore(0, kc.cfg.ClientId, false, false)
	env := kitHandler(kc.cfg, store, false, false)
	var req *envoy.CheckRequest
	switch vn.Choice("request-shape", 6) {
	case 0:
		req = nil
	case 1:
		req = &envoy.CheckRequest{}
	case 2:
		req = &envoy.CheckRequest{Attributes: &envoy.AttributeContext{}}
	case 3:
		req = &envoy.CheckRequest{Attributes: &envoy.AttributeContext{Request: &envoy.AttributeContext_Request{}}}
	case 4:
		req = &envoy.CheckRequest{Attributes: &envoy.AttributeContext{Request: &envoy.AttributeContext_Request{Http: &envoy.AttributeContext_HttpRequest{}}}}
	default:
		req = &envoy.CheckRequest{Attributes: &envoy.AttributeContext{Request: &envoy.AttributeContext_Request{Http: &envoy.AttributeContext_HttpRequest{
			Path: vn.String("path", vn.Bound("path-bytes", 6)), Host: vn.String("host", 4), Scheme: vn.String("scheme", 4),
			Headers: map[string]string{"cookie": vn.String("raw-cookie", vn.Bound("raw-cookie-bytes", 8))},
		}}}}
	}
	resp := &envoy.CheckResponse{}
	err := env.h.Process(context.Background(), req, resp)
	vn.Cover("C15/shapes-verdict", err == nil)
	kitWellFormed(resp, err)
}
