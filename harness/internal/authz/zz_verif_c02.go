package authz

import (
	"context"

	corev3 "github.com/envoyproxy/go-control-plane/envoy/config/core/v3"
	envoy "github.com/envoyproxy/go-control-plane/envoy/service/auth/v3"
	"github.com/lestrrat-go/jwx/v2/jws"

	"github.com/istio-ecosystem/authservice/internal/oidc"
	"github.com/istio-ecosystem/authservice/internal/vn"
)

func init() {
	verifHarnesses["VerifC02_Session"] = VerifC02_Session
	verifHarnesses["VerifC02_Callback"] = VerifC02_Callback
}

// kitStep is one check from an arbitrary abstract state; shared by several properties.
type kitStepResult struct {
	kc      *kitCfg
	env     *kitEnv
	store   *symStore
	req     *envoy.CheckRequest
	carried string
	resp    *envoy.CheckResponse
	err     error
	pre     *kitSlot // what the store held for the carried session before the check (nil: nothing)
	preCopy oidc.TokenResponse // field-wise copy of pre.tokens (detects in-place modification)
}

type kitStepOpts struct {
	pathShape int
	faults    bool
	honestIdP bool
	malformed bool
}

func kitStep(o kitStepOpts) *kitStepResult {
	r := &kitStepResult{}
	r.kc = kitConfig(kitCfgOpts{accessToken: vn.Choice("cfg-access-token", 2) == 1, logout: o.pathShape == pathLogout || vn.Choice("cfg-logout", vn.Bound("cfg-logout-variants", 2)) == vn.Bound("cfg-logout-variants", 2)-1})
	r.store = kitStore(vn.Bound("store-slots", 1), r.kc.cfg.ClientId, o.faults, o.malformed)
	r.env = kitHandler(r.kc.cfg, r.store, o.faults, o.honestIdP)
	r.req, r.carried = kitArbitraryRequest(r.kc, o.pathShape)
	if r.carried != "" {
		if sl := r.store.slots[r.carried]; sl != nil {
			r.pre = &kitSlot{tokens: sl.tokens, auth: sl.auth}
			if sl.tokens != nil {
				r.preCopy = *sl.tokens
			}
		}
	}
	r.resp = &envoy.CheckResponse{}
	r.err = r.env.h.Process(context.Background(), r.req, r.resp)
	return r
}

// refValidIDToken is the reference validity predicate of the property: parses, signature valid
// under the configured key set, audience contains the client id.
func refValidIDToken(tok string, clientID string) bool {
	t, err := oidc.ParseToken(tok)
	if err != nil {
		return false
	}
	inAud := false
	for _, a := range t.Audience() {
		inAud = vn.Or(inAud, a == clientID)
	}
	_, verr := jws.Verify([]byte(tok), jws.WithKeySet(vn.KeySet("good"), jws.WithInferAlgorithmFromKey(true)))
	return vn.And(inAud, verr == nil)
}

func refNonceIs(tok string, want string) bool {
	t, err := oidc.ParseToken(tok)
	if err != nil {
		return false
	}
	n, ok := t.Get("nonce")
	if !ok {
		return false
	}
	s, isStr := n.(string)
	if !isStr {
		return false
	}
	return s == want
}

func kitHeader(hs []*corev3.HeaderValueOption, key string) (string, int) {
	val, n := "", 0
	for _, h := range hs {
		if h.GetHeader().GetKey() == key {
			val = h.GetHeader().GetValue()
			n++
		}
	}
	return val, n
}

func VerifC02_Session()  { verifC02(pathAny) }
func VerifC02_Callback() { verifC02(pathCallback) }

// verifC02: one check from an arbitrary state with an adversarial provider. Every token response
// that gets bound to a session passed validation and came from this exchange (or was held
// before); on OK exactly the bound tokens are forwarded under the configured headers.
func verifC02(pathShape int) {
	r := kitStep(kitStepOpts{pathShape: pathShape, faults: false, honestIdP: false})
	cfg := r.kc.cfg
	body := r.env.idp.lastBody
	for i := range r.store.calls {
		c := &r.store.calls[i]
		if c.op != "SetTokenResponse" {
			continue
		}
		vn.Cover("C02/bound", true)
		t := c.tokens
		vn.Assert("C02/bound-under-the-presented-session", vn.And(r.carried != "", c.id == r.carried))
		vn.Assert("C02/bound-id-token-is-valid", refValidIDToken(t.IDToken, cfg.ClientId))
		vn.Assert("C02/key-source-was-consulted", r.env.jwks.calls >= 1)
		vn.Assert("C02/one-token-request", len(r.env.idp.calls) == 1)
		if len(r.env.idp.calls) != 1 {
			continue
		}
		vn.Assert("C02/provider-answered", vn.And(r.env.idp.answer == 3, body.kind == 3))
		gt := r.env.idp.calls[0].form["grant_type"]
		vn.Assert("C02/grant-type-present", len(gt) == 1)
		if len(gt) != 1 {
			continue
		}
		if gt[0] == "authorization_code" {
			vn.Cover("C02/bound-at-login", true)
			// login: the token is the body's id_token and carries the nonce issued for this session
			vn.Assert("C02/login-binds-the-exchanged-id-token", vn.And(body.idKind == 1, t.IDToken == body.idToken))
			vn.Assert("C02/login-session-was-pending", vn.And(r.pre != nil, r.pre != nil && r.pre.auth != nil))
			if r.pre != nil && r.pre.auth != nil {
				vn.Assert("C02/login-nonce-is-the-session's", refNonceIs(t.IDToken, r.pre.auth.Nonce))
			}
			vn.Assert("C02/login-access-token-from-body", vn.Or(t.AccessToken == "", vn.And(body.idKind == 1, t.AccessToken == body.access)))
			vn.Assert("C02/login-refresh-token-from-body", vn.Or(t.RefreshToken == "", t.RefreshToken == body.refresh))
		} else {
			vn.Cover("C02/bound-at-refresh", true)
			vn.Assert("C02/refresh-grant", gt[0] == "refresh_token")
			vn.Assert("C02/refresh-session-held-tokens", vn.And(r.pre != nil, r.pre != nil && r.pre.tokens != nil))
			if r.pre != nil && r.pre.tokens != nil {
				old := r.pre.tokens
				vn.Assert("C02/refresh-id-token-is-new-or-held", vn.Or(t.IDToken == old.IDToken, vn.And(body.idKind == 1, t.IDToken == body.idToken)))
				vn.Assert("C02/refresh-access-token-is-new-or-held", vn.Or(t.AccessToken == old.AccessToken, t.AccessToken == body.access))
				vn.Assert("C02/refresh-refresh-token-is-new-or-held", vn.Or(t.RefreshToken == old.RefreshToken, t.RefreshToken == body.refresh))
			}
		}
	}
	// tokens change only through SetTokenResponse: the value the store handed out must not have
	// been modified in place (a store may hand out its own object)
	if r.pre != nil && r.pre.tokens != nil {
		now := r.pre.tokens
		vn.Assert("C02/held-tokens-not-modified-in-place", vn.And(now.IDToken == r.preCopy.IDToken, now.AccessToken == r.preCopy.AccessToken, now.RefreshToken == r.preCopy.RefreshToken, now.AccessTokenExpiresAt.Equal(r.preCopy.AccessTokenExpiresAt)))
	}
	if r.err != nil || !kitOK(r.resp) {
		return
	}
	// forwarded tokens = the ones bound to the presented session after the check
	vn.Cover("C02/ok", true)
	vn.Assert("C02/ok-has-session", r.carried != "")
	sl := r.store.slots[r.carried]
	vn.Assert("C02/ok-session-holds-tokens", vn.And(sl != nil, sl != nil && sl.tokens != nil))
	if sl == nil || sl.tokens == nil {
		return
	}
	t := sl.tokens
	hs := r.resp.GetOkResponse().GetHeaders()
	want := 1
	idVal, idN := kitHeader(hs, cfg.IdToken.Header)
	wantID := t.IDToken
	if cfg.IdToken.Preamble != "" {
		wantID = cfg.IdToken.Preamble + " " + t.IDToken
	}
	vn.Assert("C02/id-token-header", vn.And(idN == 1, idVal == wantID))
	if cfg.AccessToken != nil && t.AccessToken != "" {
		want = 2
		atVal, atN := kitHeader(hs, cfg.AccessToken.Header)
		wantAT := t.AccessToken
		if cfg.AccessToken.Preamble != "" {
			wantAT = cfg.AccessToken.Preamble + " " + t.AccessToken
		}
		vn.Assert("C02/access-token-header", vn.And(atN == 1, atVal == wantAT))
	}
	vn.Assert("C02/no-other-header", len(hs) == want)
}
