package internal

// Verification harness for the TLS trust configuration logic (injected by overlay).

import (
	"context"
	"crypto/tls"
	"crypto/x509"
	"time"

	"google.golang.org/protobuf/types/known/durationpb"
	"google.golang.org/protobuf/types/known/structpb"

	oidcv1 "github.com/istio-ecosystem/authservice/config/gen/go/v1/oidc"
	"github.com/istio-ecosystem/authservice/internal/vn"
)

func init() {
	verifHarnesses["VerifC20_TrustFollowsConfiguration"] = VerifC20_TrustFollowsConfiguration
	verifHarnesses["VerifC20_PoolingAndRotation"] = VerifC20_PoolingAndRotation
}

const verifCAa = `-----BEGIN CERTIFICATE-----
MIIBXDCCAQOgAwIBAgIBATAKBggqhkjOPQQDAjAVMRMwEQYDVQQDEwp2ZXJpZi1j
YS1hMCAXDTIzMTExNDIyMTMyMFoYDzIwOTYxMDAyMDcwNjQwWjAVMRMwEQYDVQQD
Ewp2ZXJpZi1jYS1hMFkwEwYHKoZIzj0CAQYIKoZIzj0DAQcDQgAEzEuI/XPhTSgi
d0V4/opBU5fYUWv+qT0gjDdhSe74bvArMN8qlsiNptRfxSGJEmCJk2G6tKFFEC8G
CEKoXvwwZKNCMEAwDgYDVR0PAQH/BAQDAgIEMA8GA1UdEwEB/wQFMAMBAf8wHQYD
VR0OBBYEFHBSW+zajazviQ1S3jk1LM4RCkT8MAoGCCqGSM49BAMCA0cAMEQCIGsf
GxIsj9cpi/dZeLc9WTCoYWoBZI5Ia8seNYxdSCZlAiBjfMxrCMS2BWBNvGXV08N3
7qjD67CYWURKK1iZjzwfXA==
-----END CERTIFICATE-----
`
const verifCAb = `-----BEGIN CERTIFICATE-----
MIIBXTCCAQOgAwIBAgIBATAKBggqhkjOPQQDAjAVMRMwEQYDVQQDEwp2ZXJpZi1j
YS1iMCAXDTIzMTExNDIyMTMyMFoYDzIwOTYxMDAyMDcwNjQwWjAVMRMwEQYDVQQD
Ewp2ZXJpZi1jYS1iMFkwEwYHKoZIzj0CAQYIKoZIzj0DAQcDQgAEi2EHLJnjcpZI
qo9Cr0a6f2qjP8P17b4PId/3kJ7uA3vq/PfuGx7hnrLcZaZArTDVxvpbZMg5gPOH
Gf9KvYg17qNCMEAwDgYDVR0PAQH/BAQDAgIEMA8GA1UdEwEB/wQFMAMBAf8wHQYD
VR0OBBYEFE4WN9grV/cfMSlqDlWZQAOHE/zmMAoGCCqGSM49BAMCA0gAMEUCIHuJ
mwWAagXXV3zL7Z/msS7nua1CU5dirgiULimaLWh6AiEA01q5U//IJv4mJ0vXJxux
m5Suuc5wQaxOStr0eAoiU+I=
-----END CERTIFICATE-----
`

type kitTLS struct {
	cfg       *oidcv1.OIDCConfig
	inline    string // "" or PEM
	file      string // "" or path
	fileData  string
	fileOK    bool
	skipSet   bool
	skipWant  bool // what BoolStrValue must yield
	interval  time.Duration
}

func kitPEM(n string) string {
	switch vn.Choice(n, 3) {
	case 0:
		return verifCAa
	case 1:
		return verifCAb
	}
	return "not a certificate"
}

// kitTLSSettings draws one combination of inline CA / CA file / skip-verify (bool or string form)
// / refresh interval.
func kitTLSSettings(n string, mayBeEmpty ...bool) *kitTLS {
	k := &kitTLS{cfg: &oidcv1.OIDCConfig{}}
	switch vn.Choice(n+"-ca-source", 3) {
	case 1:
		k.inline = kitPEM(n + "-inline-ca")
		k.cfg.TrustedCaConfig = &oidcv1.OIDCConfig_TrustedCertificateAuthority{TrustedCertificateAuthority: k.inline}
	case 2:
		k.file = vn.FilePath(n + "-ca.pem")
		k.fileData = kitPEM(n + "-file-ca")
		if (len(mayBeEmpty) == 0 || mayBeEmpty[0]) && vn.Choice(n+"-file-still-empty", 2) == 1 {
			k.fileData = "" // the file exists but has no content yet (a mounted secret populated later)
		}
		k.fileOK = vn.Choice(n+"-file-readable", 2) == 1
		vn.SetFile(k.file, k.fileData, k.fileOK)
		k.cfg.TrustedCaConfig = &oidcv1.OIDCConfig_TrustedCertificateAuthorityFile{TrustedCertificateAuthorityFile: k.file}
	}
	switch vn.Choice(n+"-skip-verify", 6) {
	case 1:
		k.skipSet, k.skipWant = true, true
		k.cfg.SkipVerifyPeerCert = structpb.NewBoolValue(true)
	case 2:
		k.skipSet, k.skipWant = true, false
		k.cfg.SkipVerifyPeerCert = structpb.NewBoolValue(false)
	case 3:
		k.skipSet, k.skipWant = true, true
		k.cfg.SkipVerifyPeerCert = structpb.NewStringValue("true")
	case 4:
		k.skipSet, k.skipWant = true, false
		k.cfg.SkipVerifyPeerCert = structpb.NewStringValue("false")
	case 5:
		k.skipSet, k.skipWant = true, false
		k.cfg.SkipVerifyPeerCert = structpb.NewStringValue("maybe")
	}
	switch vn.Choice(n+"-refresh-interval", 3) {
	case 1:
		k.interval = 0
		k.cfg.TrustedCertificateAuthorityRefreshInterval = durationpb.New(0)
	case 2:
		k.interval = 10 * time.Second
		k.cfg.TrustedCertificateAuthorityRefreshInterval = durationpb.New(10 * time.Second)
	}
	return k
}

func kitSystemPlus(pem string) *x509.CertPool {
	p, err := x509.SystemCertPool()
	if err != nil {
		panic(err)
	}
	vn.Assume(p.AppendCertsFromPEM([]byte(pem)))
	return p
}

func (k *kitTLS) ca() (string, bool) {
	if k.inline != "" {
		return k.inline, true
	}
	if k.file != "" {
		return k.fileData, true
	}
	return "", false
}

// VerifC20_TrustFollowsConfiguration: the TLS configuration handed to the HTTP client trusts the
// system roots plus the configured CA (inline or file) and never skips verification when a CA is
// given; without a CA it skips verification exactly when requested; with nothing set it is nil.
func VerifC20_TrustFollowsConfiguration() {
	pool := NewTLSConfigPool(context.Background())
	k := kitTLSSettings("a")
	got, err := pool.LoadTLSConfig(k.cfg)
	ca, hasCA := k.ca()
	caValid := ca == verifCAa || ca == verifCAb
	switch {
	case !hasCA && !k.skipSet:
		vn.Cover("C20/nothing-configured", true)
		vn.Assert("C20/nothing-configured-means-default", vn.And(err == nil, got == nil))
	case hasCA && k.file != "" && !k.fileOK:
		vn.Assert("C20/unreadable-ca-file-is-an-error", err != nil)
	case hasCA && ca == "":
		// a CA file is configured but still empty: nothing to add to the system roots yet, and
		// certainly no licence to skip verification ("only when ... no CA is given")
		vn.Cover("C20/ca-file-still-empty", true)
		vn.Assert("C20/empty-ca-file-loads", vn.And(err == nil, got != nil))
		if got != nil {
			vn.Assert("C20/never-skip-verify-with-a-ca", !got.InsecureSkipVerify)
			vn.Assert("C20/empty-ca-file-adds-no-roots", got.RootCAs == nil)
		}
	case hasCA && !caValid:
		vn.Assert("C20/invalid-ca-is-an-error", err != nil)
	case hasCA:
		vn.Cover("C20/ca-configured", true)
		vn.Assert("C20/ca-load-succeeds", vn.And(err == nil, got != nil))
		if got != nil {
			vn.Assert("C20/never-skip-verify-with-a-ca", !got.InsecureSkipVerify)
			vn.Assert("C20/trust-is-system-roots-plus-ca", vn.And(got.RootCAs != nil, got.RootCAs != nil && got.RootCAs.Equal(kitSystemPlus(ca))))
		}
	default:
		vn.Cover("C20/skip-verify-only", true)
		vn.Assert("C20/skip-load-succeeds", vn.And(err == nil, got != nil))
		if got != nil {
			vn.Assert("C20/skip-verify-exactly-as-requested", got.InsecureSkipVerify == k.skipWant)
			vn.Assert("C20/no-private-roots-without-a-ca", got.RootCAs == nil)
		}
	}
}

// VerifC20_PoolingAndRotation: two loads return the same configuration object iff their settings
// are equal, each reflecting the settings it was requested with; after the CA file changes the
// reload callback makes the pooled configuration (the very object clients hold) trust system
// roots plus the new content; re-watching a file cancels the superseded watcher.
func VerifC20_PoolingAndRotation() {
	pool := NewTLSConfigPool(context.Background()).(*tlsConfigPool)
	a := kitTLSSettings("a")
	var b *kitTLS
	same := vn.Choice("second-load-same-settings", 2) == 1
	if same {
		b = a
	} else {
		b = kitTLSSettings("b", false)
	}
	ga, erra := pool.LoadTLSConfig(a.cfg)
	gb, errb := pool.LoadTLSConfig(b.cfg)
	if erra != nil || errb != nil || ga == nil || gb == nil {
		return
	}
	if same {
		vn.Cover("C20/pooled", true)
		vn.Assert("C20/identical-settings-share-one-configuration", ga == gb)
	}
	caA, hasA := a.ca()
	caB, hasB := b.ca()
	settingsEqual := a.inline == b.inline && a.file == b.file && a.interval == b.interval && (hasA || hasB || a.skipWant == b.skipWant) && (hasA == hasB) &&
		BoolStrValue(a.cfg.SkipVerifyPeerCert) == BoolStrValue(b.cfg.SkipVerifyPeerCert)
	if !settingsEqual {
		vn.Cover("C20/distinct-settings", true)
		vn.Assert("C20/different-settings-do-not-share", ga != gb)
	}
	// each configuration reflects its own request
	if hasA && caA != "" {
		vn.Assert("C20/first-reflects-its-ca", ga.RootCAs != nil && ga.RootCAs.Equal(kitSystemPlus(caA)))
	}
	if hasB && caB != "" {
		vn.Assert("C20/second-reflects-its-ca", gb.RootCAs != nil && gb.RootCAs.Equal(kitSystemPlus(caB)))
	}
	// rotation of a watched CA file
	if a.file != "" && a.interval > 0 {
		vn.Cover("C20/rotation", true)
		w := pool.caWatcher.watchers[a.file]
		vn.Assert("C20/file-is-watched", w != nil)
		if w == nil {
			return
		}
		newPEM := verifCAb
		if a.fileData == verifCAb {
			newPEM = verifCAa
		}
		// what the watcher's tick does when the content changed
		w.callback([]byte(newPEM))
		vn.Assert("C20/pooled-object-now-trusts-the-new-ca", ga.RootCAs != nil && ga.RootCAs.Equal(kitSystemPlus(newPEM)))
		vn.Assert("C20/verification-stays-on-after-rotation", !ga.InsecureSkipVerify)
		again, err := pool.LoadTLSConfig(a.cfg)
		vn.Assert("C20/clients-built-later-get-the-same-object", vn.And(err == nil, again == ga))
		// watching the same file again supersedes the old watcher -- whether the new watch polls
		// (same interval), reads once (no interval: e.g. a second TLS configuration naming the same
		// CA file without a refresh interval) or fails because the file cannot be read just now
		switch vn.Choice("rewatch-kind", 3) {
		case 0:
			_, err = pool.caWatcher.WatchFile(NewFileReader(a.file), a.interval, func([]byte) {})
			vn.Assert("C20/rewatch-succeeds", err == nil)
		case 1:
			_, err = pool.caWatcher.WatchFile(NewFileReader(a.file), 0, func([]byte) {})
			vn.Assert("C20/rewatch-succeeds", err == nil)
			vn.Cover("C20/rewatch-without-interval", true)
		default:
			vn.SetFile(a.file, newPEM, false)
			_, err = pool.caWatcher.WatchFile(NewFileReader(a.file), a.interval, func([]byte) {})
			vn.Assert("C20/rewatch-of-unreadable-file-is-an-error", err != nil)
		}
		vn.Assert("C20/superseded-watcher-stops", w.ctx.Err() != nil)
	}
}

var _ = tls.Config{}
