package server

// Verification harness kit for package server (injected by overlay; never committed to /repo).

import (
	"context"

	envoy "github.com/envoyproxy/go-control-plane/envoy/service/auth/v3"

	configv1 "github.com/istio-ecosystem/authservice/config/gen/go/v1"
	mockv1 "github.com/istio-ecosystem/authservice/config/gen/go/v1/mock"
	"github.com/istio-ecosystem/authservice/internal"
	"github.com/istio-ecosystem/authservice/internal/vn"
)

var verifHarnesses = map[string]func(){
	"VerifC07_QueryFragmentIndependent":            VerifC07_QueryFragmentIndependent,
	"VerifC07_DocumentedFunction":                  VerifC07_DocumentedFunction,
	"VerifC08_ChainEvaluation":                     VerifC08_ChainEvaluation,
	"VerifC08_VerdictIndependentOfEarlierRequests": VerifC08_VerdictIndependentOfEarlierRequests,
}

func kitReq(path string, headers map[string]string) *envoy.CheckRequest {
	return &envoy.CheckRequest{
		Attributes: &envoy.AttributeContext{
			Request: &envoy.AttributeContext_Request{
				Http: &envoy.AttributeContext_HttpRequest{
					Method: "GET", Scheme: "https", Host: "example.com", Path: path, Headers: headers,
				},
			},
		},
	}
}

// kitStringMatch returns a StringMatch of arbitrary kind (including an unset oneof and a nil
// entry) with an arbitrary pattern of at most capv bytes.
func kitStringMatch(name string, capv int) *configv1.StringMatch {
	pat := vn.String(name+"-pattern", capv)
	switch vn.Choice(name+"-kind", 6) {
	case 0:
		return &configv1.StringMatch{MatchType: &configv1.StringMatch_Exact{Exact: pat}}
	case 1:
		return &configv1.StringMatch{MatchType: &configv1.StringMatch_Prefix{Prefix: pat}}
	case 2:
		return &configv1.StringMatch{MatchType: &configv1.StringMatch_Suffix{Suffix: pat}}
	case 3:
		return &configv1.StringMatch{MatchType: &configv1.StringMatch_Regex{Regex: pat}}
	case 4:
		return &configv1.StringMatch{}
	}
	return nil
}

// kitRule returns a trigger rule with 0..maxEx excluded and 0..maxIn included patterns, or nil.
func kitRule(name string, maxEx, maxIn, capv int, allowNil bool) *configv1.TriggerRule {
	if allowNil && vn.Choice(name+"-nil", 2) == 1 {
		return nil
	}
	r := &configv1.TriggerRule{}
	ne := vn.Choice(name+"-nex", maxEx+1)
	for i := 0; i < ne; i++ {
		r.ExcludedPaths = append(r.ExcludedPaths, kitStringMatch(name+"-ex"+string(rune('0'+i)), capv))
	}
	ni := vn.Choice(name+"-nin", maxIn+1)
	for i := 0; i < ni; i++ {
		r.IncludedPaths = append(r.IncludedPaths, kitStringMatch(name+"-in"+string(rune('0'+i)), capv))
	}
	return r
}

func kitRules() []*configv1.TriggerRule {
	n := vn.Choice("nrules", vn.Bound("c07-max-rules", 1)+1)
	var rules []*configv1.TriggerRule
	for i := 0; i < n; i++ {
		rules = append(rules, kitRule("rule"+string(rune('0'+i)), vn.Bound("c07-max-excluded", 1), vn.Bound("c07-max-included", 1), vn.Bound("c07-pattern-bytes", 5), i == 0))
	}
	return rules
}

// kitDenyFilter is an ExtAuthZFilter whose only chain always denies: OK <=> not triggered.
func kitDenyFilter(rules []*configv1.TriggerRule) *ExtAuthZFilter {
	cfg := &configv1.Config{
		TriggerRules: rules,
		Chains: []*configv1.FilterChain{{
			Name:    "deny",
			Filters: []*configv1.Filter{{Type: &configv1.Filter_Mock{Mock: &mockv1.MockConfig{Allow: false}}}},
		}},
	}
	return &ExtAuthZFilter{log: internal.Logger(internal.Authz), cfg: cfg}
}

// kitTriggered runs the real Check and reports whether authentication was triggered.
func kitTriggered(e *ExtAuthZFilter, path string) bool {
	resp, err := e.Check(context.Background(), kitReq(path, nil))
	vn.Assert("C07/check-returns-verdict", vn.And(err == nil, resp != nil))
	return resp.GetStatus().GetCode() != 0
}
