package server

import (
	"context"
	"strings"

	configv1 "github.com/istio-ecosystem/authservice/config/gen/go/v1"
	mockv1 "github.com/istio-ecosystem/authservice/config/gen/go/v1/mock"
	"github.com/istio-ecosystem/authservice/internal"
	"github.com/istio-ecosystem/authservice/internal/vn"
)

const (
	lowerAlpha = "abcdefghijklmnopqrstuvwxyz-"
	mixedAlpha = "abcdefghijklmnopqrstuvwxyzABCDEFGHIJKLMNOPQRSTUVWXYZ-"
)

// kitMatch returns nil (no criterion), an equality or a prefix criterion on an arbitrary header
// name (any case) -- the shapes the generated validation accepts (name and criterion non-empty).
func kitMatch(name string) *configv1.Match {
	kind := vn.Choice(name+"-match", 3)
	if kind == 0 {
		return nil
	}
	h := vn.StringIn(name+"-header", vn.Bound("c08-header-name-bytes", 3), mixedAlpha)
	v := vn.String(name+"-criterion", vn.Bound("c08-criterion-bytes", 3))
	vn.Assume(vn.And(len(h) > 0, len(v) > 0))
	if kind == 1 {
		return &configv1.Match{Header: h, Criteria: &configv1.Match_Equality{Equality: v}}
	}
	return &configv1.Match{Header: h, Criteria: &configv1.Match_Prefix{Prefix: v}}
}

// refMatches is the documented chain criterion.
func refMatches(m *configv1.Match, headers map[string]string) bool {
	if m == nil {
		return true
	}
	val := headers[strings.ToLower(m.Header)]
	switch c := m.Criteria.(type) {
	case *configv1.Match_Equality:
		return val == c.Equality
	case *configv1.Match_Prefix:
		return strings.HasPrefix(val, c.Prefix)
	}
	return false
}

// VerifC08_ChainEvaluation compares ExtAuthZFilter.Check with a reference evaluator: first
// matching chain in order; conjunction of its filters; default deny unless allow_unmatched.
func VerifC08_ChainEvaluation() {
	nchains := vn.Choice("nchains", vn.Bound("c08-max-chains", 2)+1)
	cfg := &configv1.Config{AllowUnmatchedRequests: vn.Bool("allow-unmatched")}
	for i := 0; i < nchains; i++ {
		name := "chain" + string(rune('0'+i))
		ch := &configv1.FilterChain{Name: name, Match: kitMatch(name)}
		nf := 1 + vn.Choice(name+"-nfilters", vn.Bound("c08-max-filters", 2))
		for j := 0; j < nf; j++ {
			allow := vn.Bool(name + "-allow" + string(rune('0'+j)))
			ch.Filters = append(ch.Filters, &configv1.Filter{Type: &configv1.Filter_Mock{Mock: &mockv1.MockConfig{Allow: allow}}})
		}
		cfg.Chains = append(cfg.Chains, ch)
	}
	headers := map[string]string{}
	nh := vn.Choice("nheaders", vn.Bound("c08-max-headers", 2)+1)
	for i := 0; i < nh; i++ {
		k := vn.StringIn("hdr"+string(rune('0'+i))+"-name", vn.Bound("c08-header-name-bytes", 3), lowerAlpha)
		vn.Assume(len(k) > 0)
		headers[k] = vn.String("hdr"+string(rune('0'+i))+"-value", vn.Bound("c08-header-value-bytes", 4))
	}

	// reference verdict (no short circuits: one term)
	decided := false
	refOK := false
	for _, ch := range cfg.Chains {
		m := refMatches(ch.Match, headers)
		all := true
		for _, f := range ch.Filters {
			all = vn.And(all, f.GetMock().GetAllow())
		}
		take := vn.And(!decided, m)
		refOK = vn.Or(vn.And(take, all), vn.And(!take, refOK))
		decided = vn.Or(decided, m)
	}
	refOK = vn.Or(vn.And(decided, refOK), vn.And(!decided, cfg.AllowUnmatchedRequests))

	e := &ExtAuthZFilter{log: internal.Logger(internal.Authz), cfg: cfg}
	resp, err := e.Check(context.Background(), kitReq("/", headers))
	vn.Assert("C08/check-returns-verdict", vn.And(err == nil, resp != nil))
	gotOK := resp.GetStatus().GetCode() == 0
	vn.Cover("C08/ok", gotOK)
	vn.Cover("C08/denied-by-filter", vn.And(!gotOK, decided))
	vn.Cover("C08/denied-unmatched", vn.And(!gotOK, !decided))
	vn.Cover("C08/allowed-unmatched", vn.And(gotOK, !decided))
	vn.Assert("C08/verdict-equals-reference", gotOK == refOK)
	// a denial by a filter is the mock's PermissionDenied (7) returned as is; an unmatched
	// request is denied with PermissionDenied and the "no chains matched" message
	vn.Assert("C08/denial-code", vn.Implies(!gotOK, resp.GetStatus().GetCode() == 7))
	vn.Assert("C08/unmatched-message", vn.Implies(vn.And(!gotOK, !decided), resp.GetStatus().GetMessage() == "no chains matched"))
	vn.Assert("C08/filter-denial-as-is", vn.Implies(vn.And(!gotOK, decided), resp.GetStatus().GetMessage() == ""))
}

// VerifC08_VerdictIndependentOfEarlierRequests: one ExtAuthZFilter serves every request of the
// process, so the judgement of a request must be the reference verdict whatever was asked before.
// Two chains -- named alike (the loader does not require names to differ, and both may be empty)
// or differently -- with equality criteria on one header, one to two mock filters each; two
// requests in a row on the same filter, each carrying any of three header values. The second
// verdict is compared with the reference for the second request alone.
func VerifC08_VerdictIndependentOfEarlierRequests() {
	names := [2]string{"first", "second"}
	switch vn.Choice("chain-names", 3) {
	case 1:
		names = [2]string{"same", "same"}
	case 2:
		names = [2]string{"", ""}
	}
	values := [3]string{"public", "private", "other"}
	cfg := &configv1.Config{AllowUnmatchedRequests: vn.Bool("allow-unmatched")}
	for i := 0; i < 2; i++ {
		tag := "chain" + string(rune('0'+i))
		ch := &configv1.FilterChain{Name: names[i], Match: &configv1.Match{Header: "x-kind", Criteria: &configv1.Match_Equality{Equality: values[i]}}}
		nf := 1 + vn.Choice(tag+"-nfilters", 2)
		for j := 0; j < nf; j++ {
			allow := vn.Bool(tag + "-allow" + string(rune('0'+j)))
			ch.Filters = append(ch.Filters, &configv1.Filter{Type: &configv1.Filter_Mock{Mock: &mockv1.MockConfig{Allow: allow}}})
		}
		cfg.Chains = append(cfg.Chains, ch)
	}
	ref := func(v int) bool {
		if v >= 2 {
			return cfg.AllowUnmatchedRequests
		}
		all := true
		for _, f := range cfg.Chains[v].Filters {
			all = vn.And(all, f.GetMock().GetAllow())
		}
		return all
	}
	e := &ExtAuthZFilter{log: internal.Logger(internal.Authz), cfg: cfg}
	v1 := vn.Choice("first-request-kind", 3)
	v2 := vn.Choice("second-request-kind", 3)
	r1, err1 := e.Check(context.Background(), kitReq("/", map[string]string{"x-kind": values[v1]}))
	vn.Assert("C08/check-returns-verdict:first", vn.And(err1 == nil, r1 != nil))
	vn.Assert("C08/verdict-equals-reference:first-request", (r1.GetStatus().GetCode() == 0) == ref(v1))
	r2, err2 := e.Check(context.Background(), kitReq("/", map[string]string{"x-kind": values[v2]}))
	vn.Assert("C08/check-returns-verdict:second", vn.And(err2 == nil, r2 != nil))
	got2 := r2.GetStatus().GetCode() == 0
	vn.Cover("C08/second-request-other-chain", vn.And(v1 != v2, v1 < 2, v2 < 2))
	vn.Cover("C08/second-request-ok", got2)
	vn.Cover("C08/second-request-denied", !got2)
	vn.Assert("C08/verdict-independent-of-earlier-requests", got2 == ref(v2))
}
