package server

func VerifC08_ChainEvaluation() {}
