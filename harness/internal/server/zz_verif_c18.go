package server

import (
	"context"
	"strings"

	envoy "github.com/envoyproxy/go-control-plane/envoy/service/auth/v3"

	configv1 "github.com/istio-ecosystem/authservice/config/gen/go/v1"
	oidcv1 "github.com/istio-ecosystem/authservice/config/gen/go/v1/oidc"
	"github.com/istio-ecosystem/authservice/internal"
	"github.com/istio-ecosystem/authservice/internal/oidc"
	"github.com/istio-ecosystem/authservice/internal/vn"
)

func init() {
	verifHarnesses["VerifC18_EachChainsFilterAnswersWithItsOwnSettings"] = VerifC18_EachChainsFilterAnswersWithItsOwnSettings
}

type kitOneStore struct{ s oidc.SessionStore }

func (f *kitOneStore) Get(*oidcv1.OIDCConfig) oidc.SessionStore { return f.s }

// VerifC18_EachChainsFilterAnswersWithItsOwnSettings: the service as assembled -- the real
// ExtAuthZFilter with two chains, each selected by a header and holding its own OIDC filter (own
// provider, client id, callback, cookie prefix), the real handler construction, generator and
// in-memory store. Chain names are arbitrary (the loader does not require them to differ).
// Unauthenticated requests for the two tenants in either order, and the first tenant again, are
// each redirected to THEIR filter's provider with THEIR client id and callback, and given THEIR
// cookie name -- whatever an earlier request for the other tenant left behind in the process.
func VerifC18_EachChainsFilterAnswersWithItsOwnSettings() {
	mk := func(t string) *oidcv1.OIDCConfig {
		return &oidcv1.OIDCConfig{
			AuthorizationUri: "https://idp-" + t + ".example/auth", TokenUri: "https://idp-" + t + ".example/token",
			CallbackUri: "https://" + t + ".example/callback", JwksConfig: &oidcv1.OIDCConfig_Jwks{Jwks: "keys"},
			ClientId: "client-" + t, ClientSecretConfig: &oidcv1.OIDCConfig_ClientSecret{ClientSecret: "secret-" + t},
			Scopes: []string{"openid"}, CookieNamePrefix: t, IdToken: &oidcv1.TokenConfig{Header: "authorization", Preamble: "Bearer"},
		}
	}
	chain := func(t, name string) *configv1.FilterChain {
		return &configv1.FilterChain{Name: name,
			Match:   &configv1.Match{Header: "x-tenant", Criteria: &configv1.Match_Equality{Equality: t}},
			Filters: []*configv1.Filter{{Type: &configv1.Filter_Oidc{Oidc: mk(t)}}}}
	}
	nameA, nameB := vn.StringIn("chain-a-name", 1, "xy"), vn.StringIn("chain-b-name", 1, "xy")
	vn.Assume(vn.And(len(nameA) == 1, len(nameB) == 1))
	cfg := &configv1.Config{Chains: []*configv1.FilterChain{chain("a", nameA), chain("b", nameB)}}
	vn.SetNow(vn.Time("now")) // the handlers and the store read the wall clock
	store := oidc.NewMemoryStore(&oidc.Clock{}, 0, 0)
	e := NewExtAuthZFilter(cfg, internal.NewTLSConfigPool(context.Background()), nil, &kitOneStore{s: store})
	ask := func(label, t string) {
		req := kitReq("/app", map[string]string{"x-tenant": t})
		req.Attributes.Request.Http.Host = t + ".example"
		resp, err := e.Check(context.Background(), req)
		vn.Assert("C18/redirected:"+label, vn.And(err == nil, resp != nil, resp.GetDeniedResponse() != nil))
		if err != nil || resp.GetDeniedResponse() == nil {
			return
		}
		loc, cookie := "", ""
		for _, h := range resp.GetDeniedResponse().GetHeaders() {
			switch strings.ToLower(h.GetHeader().GetKey()) {
			case "location":
				loc = h.GetHeader().GetValue()
			case "set-cookie":
				cookie = h.GetHeader().GetValue()
			}
		}
		vn.Assert("C18/own-provider-client-and-callback:"+label, vn.And(
			strings.HasPrefix(loc, "https://idp-"+t+".example/auth?"),
			strings.Contains(loc, "client_id=client-"+t+"&"),
			strings.Contains(loc, "redirect_uri=https%3A%2F%2F"+t+".example%2Fcallback&")))
		vn.Assert("C18/own-cookie-name:"+label, strings.HasPrefix(cookie, "__Host-"+t+"-authservice-session-id-cookie="))
	}
	first, second := "a", "b"
	if vn.Choice("order", 2) == 1 {
		first, second = "b", "a"
	}
	ask("first", first)
	ask("second", second)
	ask("first-again", first)
	vn.Cover("C18/two-tenants-served", true)
	vn.Cover("C18/equally-named-chains", nameA == nameB)
}

var _ = envoy.CheckRequest{}
