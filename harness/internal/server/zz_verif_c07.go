package server

import (
	"regexp"
	"strings"

	configv1 "github.com/istio-ecosystem/authservice/config/gen/go/v1"
	"github.com/istio-ecosystem/authservice/internal/vn"
)

// VerifC07_QueryFragmentIndependent: for every rule set in the bound, every path p without
// '?' and '#', and every query q / fragment f, the trigger decision for p?q, p#f and p?q#f
// equals the decision for p (2-safety; observed at ExtAuthZFilter.Check with an always-deny chain).
func VerifC07_QueryFragmentIndependent() {
	rules := kitRules()
	e := kitDenyFilter(rules)
	p := vn.String("path", vn.Bound("c07-path-bytes", 6))
	vn.Assume(!strings.ContainsAny(p, "?#"))
	q := vn.String("query", vn.Bound("c07-query-bytes", 5))
	vn.Assume(!strings.ContainsAny(q, "#"))
	f := vn.String("fragment", vn.Bound("c07-fragment-bytes", 3))
	var full string
	switch vn.Choice("shape", 3) {
	case 0:
		full = p + "?" + q
	case 1:
		full = p + "#" + f
	default:
		full = p + "?" + q + "#" + f
	}
	a := kitTriggered(e, p)
	b := kitTriggered(e, full)
	vn.Cover("C07/triggered", a)
	vn.Cover("C07/not-triggered", !a)
	vn.Assert("C07/query-fragment-independent", a == b)
}

func refStringMatch(m *configv1.StringMatch, path string) bool {
	if m == nil {
		return false
	}
	switch t := m.MatchType.(type) {
	case *configv1.StringMatch_Exact:
		return t.Exact == path
	case *configv1.StringMatch_Prefix:
		return strings.HasPrefix(path, t.Prefix)
	case *configv1.StringMatch_Suffix:
		return strings.HasSuffix(path, t.Suffix)
	case *configv1.StringMatch_Regex:
		b, _ := regexp.MatchString(t.Regex, path)
		return b
	}
	return false
}

// refTriggered is the documented decision function, written without short circuits.
func refTriggered(rules []*configv1.TriggerRule, path string) bool {
	any := false
	for _, r := range rules {
		if r == nil {
			continue
		}
		excluded := false
		for _, m := range r.ExcludedPaths {
			excluded = vn.Or(excluded, refStringMatch(m, path))
		}
		included := len(r.IncludedPaths) == 0
		for _, m := range r.IncludedPaths {
			included = vn.Or(included, refStringMatch(m, path))
		}
		any = vn.Or(any, vn.And(!excluded, included))
	}
	return vn.Or(len(rules) == 0, len(path) == 0, any)
}

// VerifC07_DocumentedFunction: the decision for a request whose target is a bare path equals the
// documented function of that path; and for a target with query/fragment it equals the documented
// function of the path component.
func VerifC07_DocumentedFunction() {
	rules := kitRules()
	e := kitDenyFilter(rules)
	p := vn.String("path", vn.Bound("c07-path-bytes", 6))
	vn.Assume(!strings.ContainsAny(p, "?#"))
	want := refTriggered(rules, p)
	target := p
	if vn.Choice("with-query", 2) == 1 {
		q := vn.String("query", vn.Bound("c07-query-bytes", 5))
		vn.Assume(!strings.ContainsAny(q, "#"))
		target = p + "?" + q
	}
	got := kitTriggered(e, target)
	vn.Cover("C07/ref-triggered", want)
	vn.Cover("C07/ref-not-triggered", !want)
	vn.Assert("C07/documented-function", got == want)
}
