package server

import (
	"context"

	envoy "github.com/envoyproxy/go-control-plane/envoy/service/auth/v3"

	"github.com/istio-ecosystem/authservice/internal/vn"
)

func init() {
	verifHarnesses["VerifC15_ServerCheckNeverPanics"] = VerifC15_ServerCheckNeverPanics
}

// VerifC15_ServerCheckNeverPanics: the entry point every check goes through before any filter
// runs (internal/server). For arbitrary trigger rules -- every pattern kind, patterns that do not
// compile, unset and nil entries -- and requests with absent parts (no attributes, no request, no
// HTTP part, no headers) or an arbitrary target, TWO checks in a row on the same filter each end in
// a well-formed verdict or an error and never panic: whatever the first check leaves behind (a
// cache, a counter) must not turn an input that was handled into a crash the second time. The
// property is run with panic = finding.
func VerifC15_ServerCheckNeverPanics() {
	e := kitDenyFilter(kitRules())
	for i := 0; i < 2; i++ {
		n := "req" + string(rune('0'+i))
		var req *envoy.CheckRequest
		switch vn.Choice(n+"-shape", 5) {
		case 0:
			req = &envoy.CheckRequest{}
		case 1:
			req = &envoy.CheckRequest{Attributes: &envoy.AttributeContext{}}
		case 2:
			req = &envoy.CheckRequest{Attributes: &envoy.AttributeContext{Request: &envoy.AttributeContext_Request{}}}
		case 3:
			req = kitReq(vn.String(n+"-path", vn.Bound("c07-path-bytes", 6)), nil)
		default:
			req = kitReq(vn.String(n+"-path", vn.Bound("c07-path-bytes", 6)), map[string]string{})
		}
		resp, err := e.Check(context.Background(), req)
		vn.Assert("C15/server-check-ends-in-a-verdict-or-an-error", vn.Or(err != nil, resp != nil))
		if err == nil && resp != nil {
			ok := resp.GetStatus().GetCode() == 0
			vn.Assert("C15/server-verdict-body-consistent-with-status", vn.Or(!ok, resp.GetDeniedResponse() == nil))
		}
	}
	vn.Cover("C15/two-server-checks", true)
}
