package http

import (
	"context"
	"net/http"

	"google.golang.org/protobuf/types/known/structpb"

	oidcv1 "github.com/istio-ecosystem/authservice/config/gen/go/v1/oidc"
	"github.com/istio-ecosystem/authservice/internal"
	"github.com/istio-ecosystem/authservice/internal/vn"
)

var verifHarnesses = map[string]func(){
	"VerifC20_ClientUsesThePooledConfiguration": VerifC20_ClientUsesThePooledConfiguration,
}

const verifCA = `-----BEGIN CERTIFICATE-----
MIIBXDCCAQOgAwIBAgIBATAKBggqhkjOPQQDAjAVMRMwEQYDVQQDEwp2ZXJpZi1j
YS1hMCAXDTIzMTExNDIyMTMyMFoYDzIwOTYxMDAyMDcwNjQwWjAVMRMwEQYDVQQD
Ewp2ZXJpZi1jYS1hMFkwEwYHKoZIzj0CAQYIKoZIzj0DAQcDQgAEzEuI/XPhTSgi
d0V4/opBU5fYUWv+qT0gjDdhSe74bvArMN8qlsiNptRfxSGJEmCJk2G6tKFFEC8G
CEKoXvwwZKNCMEAwDgYDVR0PAQH/BAQDAgIEMA8GA1UdEwEB/wQFMAMBAf8wHQYD
VR0OBBYEFHBSW+zajazviQ1S3jk1LM4RCkT8MAoGCCqGSM49BAMCA0cAMEQCIGsf
GxIsj9cpi/dZeLc9WTCoYWoBZI5Ia8seNYxdSCZlAiBjfMxrCMS2BWBNvGXV08N3
7qjD67CYWURKK1iZjzwfXA==
-----END CERTIFICATE-----
`

// VerifC20_ClientUsesThePooledConfiguration: "per-check HTTP client takes the pooled config". CA
// rotation works by updating the pooled *tls.Config in place; it reaches the identity-provider
// clients (token endpoint, discovery, key fetcher) only because their transports hold that very
// object. For TLS settings with a CA (inline) or skip-verify, and for none at all, the client
// built by NewHTTPClient carries exactly what the pool hands out for the same settings.
func VerifC20_ClientUsesThePooledConfiguration() {
	pool := internal.NewTLSConfigPool(context.Background())
	cfg := &oidcv1.OIDCConfig{}
	switch vn.Choice("tls-settings", 3) {
	case 1:
		cfg.TrustedCaConfig = &oidcv1.OIDCConfig_TrustedCertificateAuthority{TrustedCertificateAuthority: verifCA}
	case 2:
		cfg.SkipVerifyPeerCert = structpb.NewBoolValue(true)
	}
	want, err := pool.LoadTLSConfig(cfg)
	client, cerr := NewHTTPClient(cfg, pool, nil)
	vn.Assert("C20/client-built", vn.And(err == nil, cerr == nil, client != nil))
	if err != nil || cerr != nil || client == nil {
		return
	}
	tr, ok := client.Transport.(*http.Transport)
	vn.Assert("C20/client-has-a-plain-transport-without-debug-logging", ok)
	if !ok {
		return
	}
	vn.Cover("C20/client-audited", true)
	vn.Cover("C20/client-with-ca", want != nil)
	vn.Assert("C20/client-holds-the-pooled-configuration-itself", tr.TLSClientConfig == want)
}
