package internal

// Verification harness for configuration loading (injected by overlay).

import (
	"net/url"
	"os"
	"strings"

	"google.golang.org/protobuf/encoding/protojson"

	configv1 "github.com/istio-ecosystem/authservice/config/gen/go/v1"
	mockv1 "github.com/istio-ecosystem/authservice/config/gen/go/v1/mock"
	oidcv1 "github.com/istio-ecosystem/authservice/config/gen/go/v1/oidc"
	"github.com/istio-ecosystem/authservice/internal/vn"
)

var verifHarnesses = map[string]func(){
	"VerifC17_FilterShapes":       VerifC17_FilterShapes,
	"VerifC17_SingleOIDCFilter":   VerifC17_SingleOIDCFilter,
	"VerifC17_DefaultAndOverride": VerifC17_DefaultAndOverride,
	"VerifC17_MergedPathsAreJudgedAfterTheMerge": VerifC17_MergedPathsAreJudgedAfterTheMerge,
	"VerifC17_OpenIDScopeForAnyScopeList":        VerifC17_OpenIDScopeForAnyScopeList,
	"VerifC17_AtMostOneOIDCFilterPerChain":       VerifC17_AtMostOneOIDCFilterPerChain,
	"VerifC17_AcceptedConfigurationKeepsItsURIs": VerifC17_AcceptedConfigurationKeepsItsURIs,
}

const (
	alphaLower = "abcdefghijklmnopqrstuvwxyz"
	alphaURL   = "abcdefghijklmnopqrstuvwxyz:/."
)

// kitOIDC builds an OIDC configuration message with every optional part present or absent and
// arbitrary (possibly empty) strings.
// level 0: every part present (only the strings vary); 1: callback / secret source / scopes /
// id-token config present or absent; 2: additionally jwks source, logout, redis, timeouts.
func kitOIDC(n string, level int) *oidcv1.OIDCConfig { return kitOIDCv(n, level, level >= 2, "https://idp/e") }

// kitOIDCv: varyURIs lets the three endpoint URIs be absent or valid; otherwise they are all fixedURI.
func kitOIDCv(n string, level int, varyURIs bool, fixedURI string) *oidcv1.OIDCConfig {
	sb := vn.Bound("cfg-string-bytes", 3)
	// endpoint URIs: absent or a valid URL, so that the uninterpreted url.Parse agrees with the
	// real one when a witness is replayed
	uri := func(name string) string {
		if !varyURIs || !(strings.HasSuffix(name, "-authorization-uri") || strings.HasSuffix(name, "-token-uri") || strings.HasSuffix(name, "-configuration-uri")) {
			if strings.HasSuffix(name, "-configuration-uri") {
				return ""
			}
			return fixedURI
		}
		s := vn.StringIn(name, 13, alphaURL+"htps")
		vn.Assume(vn.Or(s == "", s == "https://idp/e"))
		_, err := url.Parse(s)
		vn.Assume(err == nil)
		return s
	}
	c := &oidcv1.OIDCConfig{
		ConfigurationUri: uri(n + "-configuration-uri"),
		AuthorizationUri: uri(n + "-authorization-uri"),
		TokenUri:         uri(n + "-token-uri"),
		ClientId:         vn.StringIn(n+"-client-id", sb, alphaLower+":"),
		CookieNamePrefix: vn.StringIn(n+"-cookie-prefix", 2, alphaLower),
	}
	// callback: absent, scheme://host (no path), or scheme://host/<segment> (segment may be empty:
	// the root path)
	cbKind := 1
	if level >= 1 {
		cbKind = vn.Choice(n+"-has-callback", 3)
	}
	if cbKind != 0 {
		host := vn.StringIn(n+"-callback-host", sb, alphaLower)
		vn.Assume(len(host) > 0)
		path := ""
		if cbKind == 1 {
			path = "/" + vn.StringIn(n+"-callback-path", sb, alphaLower+"/")
		}
		c.CallbackUri = vn.URL("https", host, "", path, "")
	}
	secretKind := 1
	if level >= 1 {
		secretKind = vn.Choice(n+"-secret", 3)
	}
	switch secretKind {
	case 1:
		c.ClientSecretConfig = &oidcv1.OIDCConfig_ClientSecret{ClientSecret: vn.StringIn(n+"-client-secret", sb, alphaLower)}
	case 2:
		c.ClientSecretConfig = &oidcv1.OIDCConfig_ClientSecretRef{ClientSecretRef: &oidcv1.OIDCConfig_SecretReference{Name: vn.StringIn(n+"-secret-name", sb, alphaLower)}}
	}
	jwksKind := 1
	if level >= 2 {
		jwksKind = vn.Choice(n+"-jwks", 3)
	}
	switch jwksKind {
	case 1:
		c.JwksConfig = &oidcv1.OIDCConfig_Jwks{Jwks: vn.StringIn(n+"-jwks", sb, alphaLower)}
	case 2:
		c.JwksConfig = &oidcv1.OIDCConfig_JwksFetcher{JwksFetcher: &oidcv1.OIDCConfig_JwksFetcherConfig{JwksUri: uri(n + "-jwks-uri")}}
	}
	scopesKind := 0
	if level >= 1 {
		scopesKind = vn.Choice(n+"-scopes", 3)
	}
	switch scopesKind {
	case 1:
		c.Scopes = []string{vn.StringIn(n+"-scope", sb, alphaLower)}
	case 2:
		c.Scopes = []string{"openid"}
	}
	if level == 0 || vn.Choice(n+"-id-token", 2) == 1 {
		c.IdToken = &oidcv1.TokenConfig{Header: vn.StringIn(n+"-id-header", sb, alphaLower), Preamble: vn.StringIn(n+"-id-preamble", sb, alphaLower)}
	}
	if level >= 2 {
		if vn.Choice(n+"-logout", 2) == 1 {
			c.Logout = &oidcv1.LogoutConfig{Path: vn.StringIn(n+"-logout-path", sb+1, alphaLower+"/"), RedirectUri: uri(n + "-logout-redirect")}
		}
		if vn.Choice(n+"-redis", 2) == 1 {
			ru := vn.StringIn(n+"-redis-uri", 9, alphaURL)
			vn.Assume(vn.Or(ru == "", ru == "redis://r", ru == "tcp://r"))
			c.RedisSessionStoreConfig = &oidcv1.RedisConfig{ServerUri: ru}
		}
		c.AbsoluteSessionTimeout = uint32(vn.Int(n+"-absolute-timeout", 0, 4294967295))
	}
	return c
}

func kitFilter(n string, level int) *configv1.Filter {
	switch vn.Choice(n+"-type", 4) {
	case 0:
		return &configv1.Filter{} // no type at all
	case 1:
		return &configv1.Filter{Type: &configv1.Filter_Mock{Mock: &mockv1.MockConfig{Allow: vn.Bool(n + "-allow")}}}
	case 2:
		return &configv1.Filter{Type: &configv1.Filter_Oidc{Oidc: kitOIDC(n, level)}}
	}
	return &configv1.Filter{Type: &configv1.Filter_OidcOverride{OidcOverride: kitOIDC(n, level)}}
}

func kitPick(name string, opts ...string) string { return opts[vn.Choice(name, len(opts))] }

func kitBaseConfig() *configv1.Config {
	return &configv1.Config{
		ListenAddress:    kitPick("listen-address", "0.0.0.0", "", "nope"),
		ListenPort:       int32(vn.Int("listen-port", -1, 70000)),
		HealthListenPort: int32(vn.Int("health-port", -1, 70000)),
		LogLevel:         kitPick("log-level", "info", "", "loud"),
		Threads:          uint32(vn.Int("threads", 0, 8)),
	}
}

// VerifC17_FilterShapes: every combination of filter kinds (none, mock, oidc, override) in up to
// two chains of up to two filters, with and without a default configuration.
func VerifC17_FilterShapes() {
	cfg := kitBaseConfig()
	if vn.Choice("has-default-oidc", 2) == 1 {
		cfg.DefaultOidcConfig = kitOIDC("default", 0)
	}
	nchains := vn.Choice("nchains", vn.Bound("c17-max-chains", 1)+1)
	for i := 0; i < nchains; i++ {
		n := "chain" + string(rune('0'+i))
		ch := &configv1.FilterChain{Name: vn.StringIn(n+"-name", 2, alphaLower)}
		nf := vn.Choice(n+"-nfilters", vn.Bound("c17-max-filters", 2)+1)
		for j := 0; j < nf; j++ {
			ch.Filters = append(ch.Filters, kitFilter(n+"-f"+string(rune('0'+j)), 0))
		}
		cfg.Chains = append(cfg.Chains, ch)
	}
	kitLoadAndJudge(cfg)
}

// VerifC17_SingleOIDCFilter: one chain with one OIDC filter whose every optional part is present
// or absent.
func VerifC17_SingleOIDCFilter() {
	cfg := kitBaseConfig()
	cfg.Chains = []*configv1.FilterChain{{Name: vn.StringIn("chain-name", 2, alphaLower),
		Filters: []*configv1.Filter{{Type: &configv1.Filter_Oidc{Oidc: kitOIDC("oidc", 2)}}}}}
	kitLoadAndJudge(cfg)
}

// VerifC17_MergedPathsAreJudgedAfterTheMerge: the callback URI and the logout path of a filter may
// come from different messages (default and override). The "non-root, and distinct from each
// other" requirements speak of the resolved filter, whichever message supplied which part.
func VerifC17_MergedPathsAreJudgedAfterTheMerge() {
	cfg := &configv1.Config{ListenAddress: "0.0.0.0", ListenPort: 8080, HealthListenPort: 8081, LogLevel: "info", Threads: 1}
	part := func(n string) *oidcv1.OIDCConfig {
		c := kitOIDCv(n, 0, false, "https://idp/e")
		if vn.Choice(n+"-callback-absent", 2) == 1 {
			c.CallbackUri = ""
		}
		if vn.Choice(n+"-logout", 2) == 1 {
			c.Logout = &oidcv1.LogoutConfig{Path: vn.StringIn(n+"-logout-path", vn.Bound("cfg-string-bytes", 3)+1, alphaLower+"/"), RedirectUri: "https://idp/e"}
		}
		return c
	}
	cfg.DefaultOidcConfig = part("default")
	ovr := part("override")
	cfg.Chains = []*configv1.FilterChain{{Name: "c", Filters: []*configv1.Filter{{Type: &configv1.Filter_OidcOverride{OidcOverride: ovr}}}}}
	split := vn.Or(vn.And(cfg.DefaultOidcConfig.Logout != nil, ovr.Logout == nil, ovr.CallbackUri != ""), vn.And(ovr.Logout != nil, cfg.DefaultOidcConfig.Logout == nil, cfg.DefaultOidcConfig.CallbackUri != "", ovr.CallbackUri == ""))
	got := kitLoadAndJudge(cfg)
	if got != nil {
		vn.Cover("C17/accepted-with-callback-and-logout-from-different-messages", split)
	}
}

// VerifC17_OpenIDScopeForAnyScopeList: scope values are case-sensitive (RFC 6749 section 3.3); an
// accepted filter requests exactly "openid" whatever else is configured -- other spellings
// ("OpenID", "OPENID"), prefixes and unrelated scopes do not stand in for it -- and configured
// scopes are kept.
func VerifC17_OpenIDScopeForAnyScopeList() {
	cfg := &configv1.Config{ListenAddress: "0.0.0.0", ListenPort: 8080, HealthListenPort: 8081, LogLevel: "info", Threads: 1}
	o := kitOIDCv("oidc", 0, false, "https://idp/e")
	n := vn.Choice("nscopes", 3)
	for i := 0; i < n; i++ {
		o.Scopes = append(o.Scopes, vn.StringIn("scope"+string(rune('0'+i)), 7, "openidOPENID2"))
	}
	configured := append([]string(nil), o.Scopes...)
	cfg.Chains = []*configv1.FilterChain{{Name: "c", Filters: []*configv1.Filter{{Type: &configv1.Filter_Oidc{Oidc: o}}}}}
	got := kitLoadAndJudge(cfg)
	if got == nil {
		return
	}
	res := got.Chains[0].Filters[0].GetOidc()
	for i, want := range configured {
		kept := false
		for _, s := range res.GetScopes() {
			kept = vn.Or(kept, s == want)
		}
		vn.Assert("C17/configured-scope-kept:"+string(rune('0'+i)), kept)
	}
	vn.Cover("C17/accepted-with-scopes", n > 0)
}

// VerifC17_AtMostOneOIDCFilterPerChain: chains of up to four filters of any kind (mock, oidc,
// override) in any order -- the OIDC filters need not be neighbours -- are accepted only with at
// most one OIDC filter (an override counts). The OIDC parts are fixed valid configurations, so
// that this question is not drowned in the others.
func VerifC17_AtMostOneOIDCFilterPerChain() {
	cfg := &configv1.Config{ListenAddress: "0.0.0.0", ListenPort: 8080, HealthListenPort: 8081, LogLevel: "info", Threads: 1}
	valid := func(n string) *oidcv1.OIDCConfig {
		return &oidcv1.OIDCConfig{
			AuthorizationUri: "https://idp/auth", TokenUri: "https://idp/token", CallbackUri: "https://app/" + n + "/callback",
			JwksConfig: &oidcv1.OIDCConfig_Jwks{Jwks: "keys"}, ClientId: n, ClientSecretConfig: &oidcv1.OIDCConfig_ClientSecret{ClientSecret: "s"},
			IdToken: &oidcv1.TokenConfig{Header: "authorization", Preamble: "Bearer"},
		}
	}
	// full OIDC filters and a default configuration exclude each other: either a default with
	// overrides, or no default and full filters
	withDefault := vn.Choice("with-default", 2) == 1
	if withDefault {
		cfg.DefaultOidcConfig = valid("default")
	}
	ch := &configv1.FilterChain{Name: "c"}
	nf := 1 + vn.Choice("nfilters", 4)
	wantOIDC := 0
	for j := 0; j < nf; j++ {
		n := "f" + string(rune('0'+j))
		switch {
		case vn.Choice(n+"-is-oidc", 2) == 0:
			ch.Filters = append(ch.Filters, &configv1.Filter{Type: &configv1.Filter_Mock{Mock: &mockv1.MockConfig{Allow: true}}})
		case !withDefault:
			ch.Filters = append(ch.Filters, &configv1.Filter{Type: &configv1.Filter_Oidc{Oidc: valid(n)}})
			wantOIDC++
		default:
			ch.Filters = append(ch.Filters, &configv1.Filter{Type: &configv1.Filter_OidcOverride{OidcOverride: &oidcv1.OIDCConfig{ClientId: n}}})
			wantOIDC++
		}
	}
	cfg.Chains = []*configv1.FilterChain{ch}
	got := kitLoadAndJudge(cfg)
	vn.Cover("C17/two-oidc-filters-apart", vn.And(wantOIDC >= 2, nf >= 3))
	vn.Assert("C17/more-than-one-oidc-filter-is-rejected", vn.Or(wantOIDC <= 1, got == nil))
	vn.Assert("C17/one-oidc-filter-among-mocks-is-accepted", vn.Or(wantOIDC > 1, got != nil))
}

// VerifC17_AcceptedConfigurationKeepsItsURIs: loading validates URIs, it does not rewrite them. A
// configuration whose URIs are valid but not in any canonical spelling (upper-case scheme, a
// character a serialiser would escape, an own query) is accepted and comes out with every URI
// byte for byte as written -- the redirect URI registered at the provider, the endpoints and the
// logout target are compared as strings elsewhere (C13, C04).
func VerifC17_AcceptedConfigurationKeepsItsURIs() {
	const (
		callback = "HTTPS://App.example.com/a|b/callback"
		authz    = "HTTPS://idp.example.com/auth?tenant=a|b"
		token    = "https://idp.example.com/token/"
		logoutTo = "HTTPS://idp.example.com/bye?x=%7e"
	)
	o := &oidcv1.OIDCConfig{
		AuthorizationUri: authz, TokenUri: token, CallbackUri: callback, JwksConfig: &oidcv1.OIDCConfig_Jwks{Jwks: "keys"},
		ClientId: "client", ClientSecretConfig: &oidcv1.OIDCConfig_ClientSecret{ClientSecret: "s"},
		IdToken: &oidcv1.TokenConfig{Header: "authorization", Preamble: "Bearer"}, Logout: &oidcv1.LogoutConfig{Path: "/logout", RedirectUri: logoutTo},
	}
	cfg := &configv1.Config{ListenAddress: "0.0.0.0", ListenPort: 8080, HealthListenPort: 8081, LogLevel: "info", Threads: 1,
		Chains: []*configv1.FilterChain{{Name: "c", Filters: []*configv1.Filter{{Type: &configv1.Filter_Oidc{Oidc: o}}}}}}
	l := &LocalConfigFile{}
	if vn.Symbolic() {
		vn.StageProto(cfg)
		l.path = "staged"
	} else {
		b, err := protojson.Marshal(cfg)
		if err != nil {
			panic(err)
		}
		f, err := os.CreateTemp("", "verif-config-*.json")
		if err != nil {
			panic(err)
		}
		_, _ = f.Write(b)
		_ = f.Close()
		defer os.Remove(f.Name())
		l.path = f.Name()
	}
	err := l.Validate()
	vn.Assert("C17/unusual-but-valid-uris-are-accepted", err == nil)
	if err != nil {
		return
	}
	got := l.Config.Chains[0].Filters[0].GetOidc()
	vn.Cover("C17/uris-audited", true)
	vn.Assert("C17/accepted-configuration-keeps-its-uris", vn.And(got.GetCallbackUri() == callback, got.GetAuthorizationUri() == authz,
		got.GetTokenUri() == token, got.GetLogout().GetRedirectUri() == logoutTo))
}

// VerifC17_DefaultAndOverride: a default configuration merged with one override filter.
func VerifC17_DefaultAndOverride() {
	cfg := kitBaseConfig()
	cfg.DefaultOidcConfig = kitOIDCv("default", 1, false, "https://idp/e")
	ovr0 := kitOIDCv("override", 1, false, "")
	ovr0.TokenUri = kitPick("override-token-uri", "", "https://other/t")
	cfg.Chains = []*configv1.FilterChain{{Name: vn.StringIn("chain-name", 2, alphaLower),
		Filters: []*configv1.Filter{{Type: &configv1.Filter_OidcOverride{OidcOverride: ovr0}}}}}
	def, ovr := cfg.DefaultOidcConfig, cfg.Chains[0].Filters[0].GetOidcOverride()
	wantClientID := def.ClientId
	if ovr.ClientId != "" {
		wantClientID = ovr.ClientId
	}
	wantToken := def.TokenUri
	if ovr.TokenUri != "" {
		wantToken = ovr.TokenUri
	}
	got := kitLoadAndJudge(cfg)
	if got == nil {
		return
	}
	o := got.Chains[0].Filters[0].GetOidc()
	if o != nil {
		vn.Cover("C17/merged", true)
		vn.Assert("C17/override-over-default-client-id", o.ClientId == wantClientID)
		vn.Assert("C17/override-over-default-token-uri", o.TokenUri == wantToken)
	}
}

// kitLoadAndJudge runs the real Validate() on the configuration and asserts the "accepted means
// fully resolved" predicate; it returns the loaded configuration when it was accepted.
func kitLoadAndJudge(cfg *configv1.Config) *configv1.Config {
	l := &LocalConfigFile{}
	if vn.Symbolic() {
		vn.StageProto(cfg)
		l.path = "staged"
	} else {
		b, err := protojson.Marshal(cfg)
		if err != nil {
			panic(err)
		}
		f, err := os.CreateTemp("", "verif-config-*.json")
		if err != nil {
			panic(err)
		}
		_, _ = f.Write(b)
		_ = f.Close()
		defer os.Remove(f.Name())
		l.path = f.Name()
	}
	err := l.Validate()
	vn.Cover("C17/rejected", err != nil)
	vn.Cover("C17/accepted", err == nil)
	if err != nil {
		if !vn.Symbolic() {
			vn.Event("rejected: " + err.Error())
		}
		return nil
	}
	got := &l.Config
	vn.Assert("C17/default-config-cleared", got.DefaultOidcConfig == nil)
	vn.Assert("C17/at-least-one-chain", len(got.Chains) >= 1)
	for _, ch := range got.Chains {
		noidc := 0
		vn.Assert("C17/chain-has-filters", len(ch.Filters) >= 1)
		for _, f := range ch.Filters {
			switch t := f.Type.(type) {
			case *configv1.Filter_Mock:
			case *configv1.Filter_Oidc:
				noidc++
				o := t.Oidc
				vn.Cover("C17/accepted-oidc", true)
				vn.Assert("C17/oidc-set", o != nil)
				if o == nil {
					continue
				}
				hasOpenID := false
				for _, s := range o.Scopes {
					hasOpenID = vn.Or(hasOpenID, s == "openid")
				}
				vn.Assert("C17/openid-scope", hasOpenID)
				vn.Assert("C17/client-id", vn.And(o.ClientId != "", !containsColon(o.ClientId)))
				vn.Assert("C17/client-secret-source", o.ClientSecretConfig != nil)
				vn.Assert("C17/id-token-header", vn.And(o.IdToken != nil, o.GetIdToken().GetHeader() != ""))
				vn.Assert("C17/endpoints-or-discovery", vn.Or(o.ConfigurationUri != "", vn.And(o.AuthorizationUri != "", o.TokenUri != "", vn.Or(o.GetJwks() != "", o.GetJwksFetcher().GetJwksUri() != ""))))
				cb, perr := url.Parse(o.CallbackUri)
				vn.Assert("C17/callback-parses", vn.And(o.CallbackUri != "", perr == nil))
				if perr == nil {
					vn.Assert("C17/callback-path-not-root", vn.And(cb.Path != "", cb.Path != "/"))
					if o.Logout != nil {
						vn.Assert("C17/logout-path-not-root-and-distinct", vn.And(o.Logout.Path != "", o.Logout.Path != "/", o.Logout.Path != cb.Path))
					}
				}
			default:
				vn.Assert("C17/filter-is-oidc-or-mock", false)
			}
		}
		vn.Assert("C17/at-most-one-oidc-filter-per-chain", noidc <= 1)
	}
	return got
}

func containsColon(s string) bool {
	for i := 0; i < len(s); i++ {
		if s[i] == ':' {
			return true
		}
	}
	return false
}
