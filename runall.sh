#!/bin/sh
# Runs every registered check (tier $1, default quick) on /repo's current tree and prints one line each.
cd "$(dirname "$0")" || exit 2
tier="${1:-quick}"
for id in $(python3 -c "import json;print(' '.join(c['property_id'] for c in json.load(open('MANIFEST.json'))['checks']))"); do
  start=$(date +%s)
  out=$(./check "$id" "$tier" 2>&1)
  rc=$?
  end=$(date +%s)
  echo "$id exit=$rc wall=$((end-start))s $(echo "$out" | grep -c '^VIOLATION') violations $(echo "$out" | grep -c '^KNOWN-FINDING') known $(echo "$out" | grep -c '^INCONCLUSIVE') inconclusive"
  echo "$out" | grep '^VIOLATION\|^INCONCLUSIVE' | cut -c1-220
done
