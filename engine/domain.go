package main

// Contract stubs for the third-party callees of authservice (jwt, json, http, url, redis, ...).

func (e *Engine) registerDomain() {
}
