package main

// Contract stubs for the third-party callees of authservice (jwt, json, http, url, base64, ...)
// and the abstract-document part of the vn harness API (JWT, JSON documents, URLs, key sets).

import (
	"fmt"
	"go/types"
	"math/big"
	"net/textproto"
	"net/url"
	"sort"
	"strings"

	"golang.org/x/tools/go/ssa"
)

const (
	jwxJWT = "github.com/lestrrat-go/jwx/v2/jwt"
	jwxJWS = "github.com/lestrrat-go/jwx/v2/jws"
	jwxJWK = "github.com/lestrrat-go/jwx/v2/jwk"
)

// ---- abstract string functions with functional consistency (Ackermann expansion)

type strFnApp struct {
	arg, res *Str
}

// ufStr applies an uninterpreted string->string function. Results range over `alphabet`, have
// length in [minLen(arg), cap]; same argument => same result; injective if inj.
func (st *State) ufStr(name string, arg *Str, cap int, alphabet string, inj bool, nonEmptyIfArg bool) *Str {
	key := "ufstr:" + name
	var apps []strFnApp
	if v, ok := st.ghost[key]; ok {
		apps = v.([]strFnApp)
	}
	for _, a := range apps {
		if a.arg == arg || st.sEq(a.arg, arg).IsTrue() {
			return a.res
		}
	}
	res := st.newSymStr(name, cap)
	if name != "s256" { // the S256 challenge is the only declassifier
		res.p[0].taint = sTaint(arg)
	}
	st.addDef(st.sAllBytes(res, func(b *Term) *Term { return inSet(b, alphabet) }))
	if nonEmptyIfArg {
		st.addDef(Implies(Gt(sLen(arg), I(0)), Gt(sLen(res), I(0))))
	}
	for _, a := range apps {
		same := st.sEq(a.arg, arg)
		if same.IsFalse() && !inj {
			continue
		}
		if inj {
			st.addDef(Eq(same, st.sEq(a.res, res)))
		} else {
			st.addDef(Implies(same, st.sEq(a.res, res)))
		}
	}
	st.ghost[key] = append(append([]strFnApp(nil), apps...), strFnApp{arg, res})
	return res
}

const escAlphabet = "ABCDEFGHIJKLMNOPQRSTUVWXYZabcdefghijklmnopqrstuvwxyz0123456789-_.~%+"

func isUnreserved(b byte) bool {
	return b >= 'a' && b <= 'z' || b >= 'A' && b <= 'Z' || b >= '0' && b <= '9' || b == '-' || b == '_' || b == '.' || b == '~'
}

// queryEscape models url.QueryEscape: exact on constants; on symbolic input an injective
// uninterpreted function into the escaped alphabet that is the identity on unreserved strings.
func (st *State) queryEscape(s *Str) *Str {
	if c, ok := s.Const(); ok {
		return sWithTaint(constStr(url.QueryEscape(c)), sTaint(s))
	}
	res := st.ufStr("qesc", s, 3*sCap(s), escAlphabet, true, true)
	key := "qesc-id:" + fmt.Sprintf("%p", res)
	if _, done := st.ghost[key]; !done {
		st.ghost[key] = tTrue
		allUnres := st.sAllBytes(s, func(b *Term) *Term { return inSet(b, "ABCDEFGHIJKLMNOPQRSTUVWXYZabcdefghijklmnopqrstuvwxyz0123456789-_.~") })
		st.addDef(Implies(allUnres, st.sEq(res, s)))
		st.addDef(Ge(sLen(res), sLen(s)))
		st.addDef(Le(sLen(res), Mul(I(3), sLen(s))))
	}
	return res
}

// ---- struct helpers

func fieldIndex(t types.Type, name string) int {
	s, ok := t.Underlying().(*types.Struct)
	if !ok {
		unm("fieldIndex on non-struct %v", t)
	}
	for i := 0; i < s.NumFields(); i++ {
		if s.Field(i).Name() == name {
			return i
		}
	}
	unm("no field %s in %v", name, t)
	return -1
}

func (e *Engine) namedType(pkg, name string) types.Type {
	p := e.pkgs[pkg]
	if p == nil {
		unm("package %s not loaded", pkg)
	}
	m := p.Type(name)
	if m == nil {
		unm("type %s.%s not found", pkg, name)
	}
	return m.Type()
}

func (e *Engine) newStruct(st *State, t types.Type, fields map[string]Value) Ptr {
	sv := zero(t).(*StructV)
	n := &StructV{f: append([]Value(nil), sv.f...)}
	for k, v := range fields {
		n.f[fieldIndex(t, k)] = v
	}
	return Ptr{obj: st.newObj(n)}
}

func (st *State) getField(p Ptr, t types.Type, name string) Value {
	return st.load(p).(*StructV).f[fieldIndex(t, name)]
}

// ---- registries keyed by string identity

type tokSpec struct {
	name       string
	wellFormed *Term // Bool
	nonceKind  *Term // Int 0..4
	nonce      *Str
	naud       *Term // Int 0..2
	aud        []*Str
	exp        *Term
	sigValid   *Term
	s          *Str
}

type jsonMember struct {
	name string
	kind *Term // 0 absent 1 string 2 integer 3 non-integer/out-of-range number 4 other kind 5 null
	str  *Str
	num  *Term
}

type jsonDoc struct {
	name    string
	kind    *Term // 0 malformed 1 null 2 non-object value 3 object
	members []jsonMember
	s       *Str
}

type urlSpec struct {
	scheme, host, port, path, query *Str
}

func strKey(kind string, s *Str) string { return fmt.Sprintf("%s:%p", kind, s) }

// newOpaqueDoc makes a fresh non-empty string standing for an abstract document; all such
// strings on a path are pairwise distinct (native documents differ in content).
func (st *State) newOpaqueDoc(name string) *Str {
	s := st.newSymStr("doc_"+name, 3)
	st.addDef(Eq(sLen(s), I(3)))
	for i := 1; i < 3; i++ {
		st.addDef(inSet(pieceByte(s.p[0], I(int64(i))), "ABCDEFGHIJKLMNOPQRSTUVWXYZabcdefghijklmnopqrstuvwxyz0123456789"))
	}
	st.addDef(Eq(pieceByte(s.p[0], I(0)), I('.')))
	var docs []*Str
	if v, ok := st.ghost["docs"]; ok {
		docs = v.([]*Str)
	}
	for _, d := range docs {
		st.addDef(Not(st.sEq(d, s)))
	}
	st.ghost["docs"] = append(append([]*Str(nil), docs...), s)
	return s
}

func (e *Engine) registerDomain() {
	r := func(name string, f Intrinsic) { e.intr[name] = f }
	e.registerProto()
	e.registerTLS()

	// ------------------------------------------------------------ vn: abstract documents
	r(vnPkg+".JWT", func(c *CallCtx) []Outcome {
		// JWT(name, wellFormed bool, nonceKind int, nonce string, naud int, aud0, aud1 string, exp time.Time, sigValid bool) string
		name := mustConstStr(c.args[0])
		// the exp claim of a real JWT has one-second granularity
		expNs := c.args[7].(TimeV).ns
		expNs = Mul(DivFloor(expNs, I(1e9)), I(1e9))
		spec := &tokSpec{name: name, wellFormed: c.args[1].(*Term), nonceKind: c.args[2].(*Term), nonce: c.args[3].(*Str),
			naud: c.args[4].(*Term), aud: []*Str{c.args[5].(*Str), c.args[6].(*Str)}, exp: expNs, sigValid: c.args[8].(*Term)}
		c.st.assume(And(Le(I(0), spec.nonceKind), Le(spec.nonceKind, I(4)), Le(I(0), spec.naud), Le(spec.naud, I(2))))
		s := c.st.newOpaqueDoc("jwt_" + name)
		s.p[0].taint = 16 // ID tokens are credentials (C14)
		spec.s = s
		var toks []*tokSpec
		if v, ok := c.st.ghost["toks"]; ok {
			toks = v.([]*tokSpec)
		}
		c.st.ghost["toks"] = append(append([]*tokSpec(nil), toks...), spec)
		c.st.inputs = append(c.st.inputs, InputRec{Name: "jwt:" + name, Kind: "doc"})
		return c.ret(s)
	})
	r(vnPkg+".NewJSON", func(c *CallCtx) []Outcome {
		name := mustConstStr(c.args[0])
		d := &jsonDoc{name: name, kind: c.args[1].(*Term)}
		c.st.assume(And(Le(I(0), d.kind), Le(d.kind, I(3))))
		id := c.st.newObj(OpaqueV{kind: "jsondoc", data: d})
		return c.ret(I(int64(id)))
	})
	getDoc := func(c *CallCtx) (*jsonDoc, int) {
		id := mustConstInt(c.args[0])
		d := c.st.heap.objs[id].(OpaqueV).data.(*jsonDoc)
		return d, id
	}
	r(vnPkg+".JSONStr", func(c *CallCtx) []Outcome {
		d, id := getDoc(c)
		nd := &jsonDoc{name: d.name, kind: d.kind, members: append([]jsonMember(nil), d.members...)}
		nd.members = append(nd.members, jsonMember{name: mustConstStr(c.args[1]), kind: c.args[2].(*Term), str: c.args[3].(*Str)})
		c.st.assume(And(Le(I(0), c.args[2].(*Term)), Le(c.args[2].(*Term), I(5))))
		c.st.heap.objs[id] = OpaqueV{kind: "jsondoc", data: nd}
		return c.ret(nil)
	})
	r(vnPkg+".JSONNum", func(c *CallCtx) []Outcome {
		d, id := getDoc(c)
		nd := &jsonDoc{name: d.name, kind: d.kind, members: append([]jsonMember(nil), d.members...)}
		nd.members = append(nd.members, jsonMember{name: mustConstStr(c.args[1]), kind: c.args[2].(*Term), num: c.args[3].(*Term)})
		c.st.assume(And(Le(I(0), c.args[2].(*Term)), Le(c.args[2].(*Term), I(5))))
		c.st.heap.objs[id] = OpaqueV{kind: "jsondoc", data: nd}
		return c.ret(nil)
	})
	r(vnPkg+".JSONText", func(c *CallCtx) []Outcome {
		d, _ := getDoc(c)
		s := c.st.newOpaqueDoc("json_" + d.name)
		// the text of the document contains its members' values: it carries their taint (C14) --
		// unless the document or the member is known not to hold the value
		if k, ok := d.kind.ConstInt(); !ok || k == 3 {
			var taint uint32
			for _, m := range d.members {
				if mk, ok := m.kind.ConstInt(); ok && mk != 1 {
					continue
				}
				if m.str != nil {
					taint |= sTaint(m.str)
				}
			}
			s.p[0].taint |= taint
		}
		nd := *d
		nd.s = s
		var docs []*jsonDoc
		if v, ok := c.st.ghost["jsondocs"]; ok {
			docs = v.([]*jsonDoc)
		}
		c.st.ghost["jsondocs"] = append(append([]*jsonDoc(nil), docs...), &nd)
		return c.ret(s)
	})
	r(vnPkg+".URL", func(c *CallCtx) []Outcome {
		// URL(scheme, host, port, path, query string) string  -- scheme://host[:port]path[?query]
		sp := &urlSpec{scheme: c.args[0].(*Str), host: c.args[1].(*Str), port: c.args[2].(*Str), path: c.args[3].(*Str), query: c.args[4].(*Str)}
		s := sConcat(sp.scheme, constStr("://"))
		s = sConcat(s, sp.host)
		if pc, ok := sp.port.Const(); !ok || pc != "" {
			if !ok {
				// a symbolic port must be non-empty (the harness says so); "" is passed as a constant
				c.st.assume(Gt(sLen(sp.port), I(0)))
			}
			s = sConcat(sConcat(s, constStr(":")), sp.port)
		}
		s = sConcat(s, sp.path)
		if qc, ok := sp.query.Const(); !ok || qc != "" {
			s = sConcat(sConcat(s, constStr("?")), sp.query)
		}
		// force a fresh identity
		s = &Str{p: append([]Piece(nil), s.p...)}
		c.st.ghost[strKey("url", s)] = sp
		return c.ret(s)
	})
	r(vnPkg+".KeySet", func(c *CallCtx) []Outcome {
		name := mustConstStr(c.args[0])
		return c.ret(IfaceV{t: c.e.namedType(jwxJWK, "Set"), v: OpaqueV{kind: "keyset", data: name}})
	})
	r(vnPkg+".JWKSDoc", func(c *CallCtx) []Outcome { return c.ret(constStr("jwks:" + mustConstStr(c.args[0]))) })
	r(jwxJWK+".Parse", func(c *CallCtx) []Outcome {
		b, ok := c.args[0].(BytesV)
		if !ok {
			unm("jwk.Parse on %T", c.args[0])
		}
		cs, isC := b.s.Const()
		if !isC {
			unm("jwk.Parse on a symbolic document (harnesses use vn.JWKSDoc)")
		}
		if strings.HasPrefix(cs, "jwks:") {
			return c.ret(TupleV{IfaceV{t: c.e.namedType(jwxJWK, "Set"), v: OpaqueV{kind: "keyset", data: cs[5:]}}, IfaceV{}})
		}
		return c.ret(TupleV{IfaceV{}, c.e.newError(c.st, "jwk parse")})
	})
	// ------------------------------------------------------------ jwk.Cache (contract stub)
	// The auto-refreshing key-set cache of jwx (goroutines, timers, HTTP) is not executed. Its
	// documented contract is modelled instead: a URL registered WithRefreshInterval(d) is re-fetched
	// every d whatever the provider's caching headers say (WithMinRefreshInterval only bounds a
	// header-driven period from below), polled with the cache's refresh window, through the HTTP
	// client given at registration; Get returns the set last fetched from that URL. What the code
	// under test registers is recorded and handed to the harness (vn.JWKCacheOption).
	jwkOption := func(fn, iface, name string, dur bool) {
		r(jwxJWK+"."+fn, func(c *CallCtx) []Outcome {
			o := &jwkOpt{name: name}
			if dur {
				o.dur = c.args[0].(*Term)
			} else {
				o.val = c.args[0]
			}
			return c.ret(IfaceV{t: c.e.namedType(jwxJWK, iface), v: OpaqueV{kind: "jwkopt", data: o}})
		})
	}
	jwkOption("WithErrSink", "CacheOption", "ErrSink", false)
	jwkOption("WithRefreshWindow", "CacheOption", "RefreshWindow", true)
	jwkOption("WithHTTPClient", "FetchOption", "HTTPClient", false)
	jwkOption("WithRefreshInterval", "RegisterOption", "RefreshInterval", true)
	jwkOption("WithMinRefreshInterval", "RegisterOption", "MinRefreshInterval", true)
	jwkOpts := func(c *CallCtx, v Value) []*jwkOpt {
		var out []*jwkOpt
		for _, o := range c.e.sliceValues(c.st, v) {
			op, ok := o.(IfaceV).v.(OpaqueV)
			if !ok || op.kind != "jwkopt" {
				unm("jwk cache option that is not modelled")
			}
			out = append(out, op.data.(*jwkOpt))
		}
		return out
	}
	jwkCacheOf := func(c *CallCtx) (Ptr, *jwkCacheData, bool) {
		p, _ := c.args[0].(Ptr)
		if p.IsNil() {
			return p, nil, false
		}
		return p, c.st.heap.objs[p.obj].(OpaqueV).data.(*jwkCacheData), true
	}
	r(jwxJWK+".NewCache", func(c *CallCtx) []Outcome {
		d := &jwkCacheData{opts: jwkOpts(c, c.args[1])}
		return c.ret(Ptr{obj: c.st.newObj(OpaqueV{kind: "jwkcache", data: d})})
	})
	r("(*"+jwxJWK+".Cache).IsRegistered", func(c *CallCtx) []Outcome {
		_, d, ok := jwkCacheOf(c)
		if !ok {
			return c.panicOut("nil-deref-jwk-cache")
		}
		u := mustConstStr(c.args[1])
		for _, rg := range d.regs {
			if rg.uri == u {
				return c.ret(tTrue)
			}
		}
		return c.ret(tFalse)
	})
	r("(*"+jwxJWK+".Cache).Register", func(c *CallCtx) []Outcome {
		p, d, ok := jwkCacheOf(c)
		if !ok {
			return c.panicOut("nil-deref-jwk-cache")
		}
		nd := &jwkCacheData{opts: d.opts, regs: append(append([]jwkReg(nil), d.regs...), jwkReg{uri: mustConstStr(c.args[1]), opts: jwkOpts(c, c.args[2])})}
		c.st.heap.objs[p.obj] = OpaqueV{kind: "jwkcache", data: nd}
		return c.ret(IfaceV{})
	})
	r("(*"+jwxJWK+".Cache).Get", func(c *CallCtx) []Outcome {
		_, d, ok := jwkCacheOf(c)
		if !ok {
			return c.panicOut("nil-deref-jwk-cache")
		}
		u := mustConstStr(c.args[2])
		for _, rg := range d.regs {
			if rg.uri == u {
				c.e.noteAssume("jwk.Cache.Get: the registered JWKS endpoint answers (key-source failures are injected at the handler's key-source interface instead)")
				return c.ret(TupleV{IfaceV{t: c.e.namedType(jwxJWK, "Set"), v: OpaqueV{kind: "keyset", data: "fetched:" + u}}, IfaceV{}})
			}
		}
		return c.ret(TupleV{IfaceV{}, c.e.newError(c.st, "jwk cache: url not registered")})
	})
	r(vnPkg+".FetchedKeySet", func(c *CallCtx) []Outcome {
		return c.ret(IfaceV{t: c.e.namedType(jwxJWK, "Set"), v: OpaqueV{kind: "keyset", data: "fetched:" + mustConstStr(c.args[0])}})
	})
	r(vnPkg+".JWKCacheOption", func(c *CallCtx) []Outcome {
		_, d, ok := jwkCacheOf(c)
		if !ok {
			return c.ret(TupleV{I(0), tFalse})
		}
		u, name := mustConstStr(c.args[1]), mustConstStr(c.args[2])
		opts := d.opts
		if u != "" {
			opts = nil
			for _, rg := range d.regs {
				if rg.uri == u {
					opts = rg.opts
				}
			}
		}
		for _, o := range opts {
			if o.name == name {
				if o.dur != nil {
					return c.ret(TupleV{o.dur, tTrue})
				}
				return c.ret(TupleV{I(0), tTrue})
			}
		}
		return c.ret(TupleV{I(0), tFalse})
	})
	r(vnPkg+".SameKeySet", func(c *CallCtx) []Outcome {
		a, b := c.args[0].(IfaceV), c.args[1].(IfaceV)
		if a.t == nil || b.t == nil {
			return c.ret(B(a.t == nil && b.t == nil))
		}
		return c.ret(B(a.v.(OpaqueV).data == b.v.(OpaqueV).data))
	})

	// ------------------------------------------------------------ net/url
	r("net/url.QueryEscape", func(c *CallCtx) []Outcome { return c.ret(c.st.queryEscape(c.args[0].(*Str))) })
	r("(net/url.Values).Encode", func(c *CallCtx) []Outcome {
		m := c.args[0].(MapV)
		if m.obj == 0 {
			return c.ret(emptyStr)
		}
		mo := c.st.heap.objs[m.obj].(*MapObj)
		type kv struct {
			k  string
			vs []Value
		}
		var kvs []kv
		for _, en := range mo.entries {
			k, ok := en.k.(*Str).Const()
			if !ok {
				unm("Values.Encode with symbolic keys")
			}
			kvs = append(kvs, kv{k, c.e.sliceValues(c.st, en.v)})
		}
		sort.Slice(kvs, func(i, j int) bool { return kvs[i].k < kvs[j].k })
		out := emptyStr
		first := true
		for _, e := range kvs {
			for _, v := range e.vs {
				if !first {
					out = sConcat(out, constStr("&"))
				}
				first = false
				out = sConcat(out, constStr(url.QueryEscape(e.k)+"="))
				out = sConcat(out, c.st.queryEscape(v.(*Str)))
			}
		}
		out = &Str{p: append([]Piece(nil), out.p...)}
		c.st.ghost[strKey("encoded", out)] = m
		return c.ret(out)
	})
	r("(net/url.Values).Get", func(c *CallCtx) []Outcome {
		m := c.args[0].(MapV)
		if m.obj == 0 {
			return c.ret(emptyStr)
		}
		mo := c.st.heap.objs[m.obj].(*MapObj)
		cands := c.e.mapCandidates(c.st, mo, c.args[1])
		conds := make([]*Term, len(cands))
		for i, cd := range cands {
			conds[i] = cd.cond
		}
		sts := c.e.forkMany(c.st, conds)
		var outs []Outcome
		for i, s := range sts {
			if s == nil {
				continue
			}
			if cands[i].index < 0 {
				outs = append(outs, Outcome{st: s, val: emptyStr})
				continue
			}
			vs := c.e.sliceValues(s, s.heap.objs[m.obj].(*MapObj).entries[cands[i].index].v)
			if len(vs) == 0 {
				outs = append(outs, Outcome{st: s, val: emptyStr})
			} else {
				outs = append(outs, Outcome{st: s, val: vs[0]})
			}
		}
		return outs
	})
	r("net/url.ParseQuery", func(c *CallCtx) []Outcome { return c.e.parseQuery(c, c.args[0].(*Str)) })
	r("net/url.Parse", func(c *CallCtx) []Outcome { return c.e.urlParse(c, c.args[0].(*Str)) })
	r("(*net/url.URL).Port", func(c *CallCtx) []Outcome {
		p := c.args[0].(Ptr)
		if p.IsNil() {
			return c.panicOut("nil-deref-url")
		}
		if v, ok := c.st.ghost["urlobj:"+ptrKey(p)]; ok {
			return c.ret(v.(*urlSpec).port)
		}
		unm("URL.Port on unmodelled URL")
		return nil
	})
	r("(*net/url.URL).Hostname", func(c *CallCtx) []Outcome {
		p := c.args[0].(Ptr)
		if p.IsNil() {
			return c.panicOut("nil-deref-url")
		}
		if v, ok := c.st.ghost["urlobj:"+ptrKey(p)]; ok {
			return c.ret(v.(*urlSpec).host)
		}
		unm("URL.Hostname on unmodelled URL")
		return nil
	})
	r("(*net/url.URL).String", func(c *CallCtx) []Outcome {
		// the URL of a request built by http.NewRequest / Client.Get from a constant string prints as
		// the real parser prints it; anything else is an opaque string
		if p, ok := c.args[0].(Ptr); ok && !p.IsNil() {
			if v, ok := c.st.ghost["urlraw:"+ptrKey(p)]; ok {
				if cs, isC := v.(*Str).Const(); isC {
					if u, err := url.Parse(cs); err == nil {
						return c.ret(constStr(u.String()))
					}
				}
			}
		}
		return c.ret(c.e.opaqueString(c.st, "urlstr"))
	})

	r("(net/http.Header).Get", func(c *CallCtx) []Outcome {
		m := c.args[0].(MapV)
		key := textproto.CanonicalMIMEHeaderKey(mustConstStr(c.args[1]))
		if m.obj == 0 {
			return c.ret(emptyStr)
		}
		for _, en := range c.st.heap.objs[m.obj].(*MapObj).entries {
			k, ok := en.k.(*Str).Const()
			if !ok {
				unm("http.Header with symbolic keys")
			}
			if k == key {
				vs := c.e.sliceValues(c.st, en.v)
				if len(vs) > 0 {
					return c.ret(vs[0])
				}
			}
		}
		return c.ret(emptyStr)
	})

	// ------------------------------------------------------------ encodings
	r("(*encoding/base64.Encoding).EncodeToString", func(c *CallCtx) []Outcome {
		b := c.args[1].(BytesV)
		return c.ret(c.st.ufStr("b64", b.s, (sCap(b.s)+2)/3*4, "ABCDEFGHIJKLMNOPQRSTUVWXYZabcdefghijklmnopqrstuvwxyz0123456789+/=", true, true))
	})
	r("golang.org/x/oauth2.S256ChallengeFromVerifier", func(c *CallCtx) []Outcome {
		res := c.st.ufStr("s256", c.args[0].(*Str), 6, "ABCDEFGHIJKLMNOPQRSTUVWXYZabcdefghijklmnopqrstuvwxyz0123456789-_", true, false)
		c.st.addDef(Ge(sLen(res), I(1)))
		return c.ret(res)
	})

	// ------------------------------------------------------------ net/http, io
	r("net/http.NewRequest", func(c *CallCtx) []Outcome {
		method, uri, body := c.args[0].(*Str), c.args[1].(*Str), c.args[2].(IfaceV)
		invalid := c.st.urlInvalid(uri)
		a, b := c.e.forkOn(c.st, invalid)
		var outs []Outcome
		if a != nil {
			outs = append(outs, Outcome{st: a, val: TupleV{Ptr{}, c.e.newError(a, "parse url")}})
		}
		if b != nil {
			rt := c.e.namedType("net/http", "Request")
			ut := c.e.namedType("net/url", "URL")
			u := c.e.newStruct(b, ut, nil)
			b.ghost["urlraw:"+ptrKey(u)] = uri
			hdr := MapV{obj: b.newObj(&MapObj{})}
			var bodyRC Value = IfaceV{}
			if body.t != nil {
				bodyRC = IfaceV{t: c.e.namedType("io", "ReadCloser"), v: OpaqueV{kind: "readcloser", data: body.v}}
			}
			req := c.e.newStruct(b, rt, map[string]Value{"Method": method, "URL": u, "Header": hdr, "Body": bodyRC})
			outs = append(outs, Outcome{st: b, val: TupleV{req, IfaceV{}}})
		}
		return outs
	})
	r("(*crypto/tls.Config).Clone", func(c *CallCtx) []Outcome {
		p := c.args[0].(Ptr)
		if p.IsNil() {
			return c.ret(Ptr{})
		}
		src := c.st.heap.objs[p.obj].(*StructV)
		return c.ret(Ptr{obj: c.st.newObj(&StructV{f: append([]Value(nil), src.f...)})})
	})
	r("(*net/http.Transport).Clone", func(c *CallCtx) []Outcome {
		p := c.args[0].(Ptr)
		if p.IsNil() {
			return c.ret(Ptr{})
		}
		src := c.st.heap.objs[p.obj].(*StructV)
		return c.ret(Ptr{obj: c.st.newObj(&StructV{f: append([]Value(nil), src.f...)})})
	})
	r("(*net/http.Client).Do", func(c *CallCtx) []Outcome {
		cl := c.args[0].(Ptr)
		if cl.IsNil() {
			return c.panicOut("nil-deref-http-client")
		}
		ct := c.e.namedType("net/http", "Client")
		tr := c.st.getField(cl, ct, "Transport").(IfaceV)
		if tr.t == nil {
			unm("http.Client.Do with the default transport (real network)")
		}
		rt := c.e.namedType("net/http", "RoundTripper").Underlying().(*types.Interface)
		var m *types.Func
		for i := 0; i < rt.NumMethods(); i++ {
			if rt.Method(i).Name() == "RoundTrip" {
				m = rt.Method(i)
			}
		}
		fn := c.e.prog.LookupMethod(tr.t, m.Pkg(), "RoundTrip")
		if fn == nil {
			unm("transport %v has no RoundTrip", tr.t)
		}
		return []Outcome{{st: c.st, tail: &TailCall{fn: FuncV{fn: fn}, args: []Value{tr.v, c.args[1]}}}}
	})
	r("(*net/http.Client).Get", func(c *CallCtx) []Outcome {
		// Get = NewRequest("GET", url, nil) + Do
		cl := c.args[0].(Ptr)
		if cl.IsNil() {
			return c.panicOut("nil-deref-http-client")
		}
		uri := c.args[1].(*Str)
		invalid := c.st.urlInvalid(uri)
		a, b := c.e.forkOn(c.st, invalid)
		var outs []Outcome
		if a != nil {
			outs = append(outs, Outcome{st: a, val: TupleV{Ptr{}, c.e.newError(a, "parse url")}})
		}
		if b != nil {
			ct := c.e.namedType("net/http", "Client")
			tr := b.getField(cl, ct, "Transport").(IfaceV)
			if tr.t == nil {
				unm("http.Client.Get with the default transport (real network)")
			}
			rt := c.e.namedType("net/http", "Request")
			hdr := MapV{obj: b.newObj(&MapObj{})}
			ut := c.e.namedType("net/url", "URL")
			u := c.e.newStruct(b, ut, nil)
			b.ghost["urlraw:"+ptrKey(u)] = uri
			req := c.e.newStruct(b, rt, map[string]Value{"Method": constStr("GET"), "URL": u, "Header": hdr})
			iface := c.e.namedType("net/http", "RoundTripper").Underlying().(*types.Interface)
			var m *types.Func
			for i := 0; i < iface.NumMethods(); i++ {
				if iface.Method(i).Name() == "RoundTrip" {
					m = iface.Method(i)
				}
			}
			fn := c.e.prog.LookupMethod(tr.t, m.Pkg(), "RoundTrip")
			outs = append(outs, Outcome{st: b, tail: &TailCall{fn: FuncV{fn: fn}, args: []Value{tr.v, req}}})
		}
		return outs
	})
	r("encoding/json.NewDecoder", func(c *CallCtx) []Outcome {
		return c.ret(Ptr{obj: c.st.newObj(OpaqueV{kind: "jsondecoder", data: c.args[0]})})
	})
	r("(*encoding/json.Decoder).Decode", func(c *CallCtx) []Outcome {
		dec := c.args[0].(Ptr)
		rd := c.st.heap.objs[dec.obj].(OpaqueV).data.(Value)
		// read the whole body, then decode it like Unmarshal
		sub := &CallCtx{e: c.e, st: c.st, args: []Value{rd}, pos: c.pos}
		var outs []Outcome
		for _, o := range c.e.intr["io.ReadAll"](sub) {
			tv := o.val.(TupleV)
			if ev := tv[1].(IfaceV); ev.t != nil {
				outs = append(outs, Outcome{st: o.st, val: ev})
				continue
			}
			outs = append(outs, c.e.jsonUnmarshal(&CallCtx{e: c.e, st: o.st, args: []Value{tv[0], c.args[1]}, pos: c.pos})...)
		}
		return outs
	})
	r("io.NopCloser", func(c *CallCtx) []Outcome {
		rd := c.args[0].(IfaceV)
		return c.ret(IfaceV{t: c.e.namedType("io", "ReadCloser"), v: OpaqueV{kind: "readcloser", data: rd.v}})
	})
	r("io.ReadAll", func(c *CallCtx) []Outcome {
		rd := c.args[0].(IfaceV)
		if rd.t == nil {
			return c.panicOut("nil-reader")
		}
		v := rd.v
		for {
			if op, ok := v.(OpaqueV); ok && op.kind == "readcloser" {
				v = op.data.(Value)
				continue
			}
			break
		}
		if p, ok := v.(Ptr); ok && !p.IsNil() {
			if op, ok := c.st.heap.objs[p.obj].(OpaqueV); ok {
				switch op.kind {
				case "reader":
					return c.ret(TupleV{BytesV{s: op.data.(*Str)}, IfaceV{}})
				case "errreader":
					return c.ret(TupleV{BytesV{s: emptyStr, isNil: true}, c.e.newError(c.st, "read")})
				}
			}
		}
		unm("io.ReadAll on unmodelled reader")
		return nil
	})
	r(vnPkg+".FailingReader", func(c *CallCtx) []Outcome {
		p := Ptr{obj: c.st.newObj(OpaqueV{kind: "errreader"})}
		return c.ret(IfaceV{t: c.e.namedType("io", "Reader"), v: p})
	})
	r("opaque:readcloser.Close", func(c *CallCtx) []Outcome { return c.ret(IfaceV{}) })
	r("opaque:context.Done", func(c *CallCtx) []Outcome { return c.ret(ChanV{}) })
	r("opaque:context.Err", func(c *CallCtx) []Outcome { return c.ret(IfaceV{}) })
	r("opaque:context.Value", func(c *CallCtx) []Outcome { return c.ret(IfaceV{}) })

	// ------------------------------------------------------------ randomness (C06)
	// math/rand is modelled as a deterministic, TRANSPARENT generator: the i-th output is an
	// uninterpreted function of (seed, i), and any 11 consecutive outputs of two generators being
	// equal implies equal seeds (the outputs of a 62-letter alphabet carry more bits than the
	// seed; math/rand's state is recoverable from its outputs). crypto/rand yields fresh values.
	r("math/rand.NewSource", func(c *CallCtx) []Outcome {
		return c.ret(IfaceV{t: c.e.namedType("math/rand", "Source"), v: OpaqueV{kind: "randsource", data: c.args[0].(*Term)}})
	})
	r("math/rand.New", func(c *CallCtx) []Outcome {
		src := c.args[0].(IfaceV)
		seed := src.v.(OpaqueV).data.(*Term)
		id := c.st.newObj(OpaqueV{kind: "mrand", data: &mrandState{seed: seed}})
		var all []int
		if v, ok := c.st.ghost["mrands"]; ok {
			all = v.([]int)
		}
		c.st.ghost["mrands"] = append(append([]int(nil), all...), id)
		return c.ret(Ptr{obj: id})
	})
	r("(*math/rand.Rand).Intn", func(c *CallCtx) []Outcome {
		p := c.args[0].(Ptr)
		if p.IsNil() {
			return c.panicOut("nil-deref-rand")
		}
		ms := c.st.heap.objs[p.obj].(OpaqueV).data.(*mrandState)
		n := c.args[1].(*Term)
		idx := len(ms.outs)
		out := UF("mrand_out", SInt, ms.seed, I(int64(idx)))
		c.st.addDef(And(Le(I(0), out), Lt(out, n)))
		nm := &mrandState{seed: ms.seed, outs: append(append([]*Term(nil), ms.outs...), out)}
		c.st.heap.objs[p.obj] = OpaqueV{kind: "mrand", data: nm}
		// transparency: a window of 11 equal outputs at the same positions reveals the seed
		const w = 11
		if idx+1 >= w {
			for _, oid := range c.st.ghost["mrands"].([]int) {
				if oid == p.obj {
					continue
				}
				other := c.st.heap.objs[oid].(OpaqueV).data.(*mrandState)
				if len(other.outs) <= idx || other.seed == ms.seed {
					continue
				}
				var eqs []*Term
				for k := idx + 1 - w; k <= idx; k++ {
					eqs = append(eqs, Eq(nm.outs[k], other.outs[k]))
				}
				c.st.addDef(Implies(And(eqs...), Eq(ms.seed, other.seed)))
			}
		}
		return c.ret(out)
	})
	// encoding/binary: exact little/big endian decoding of (possibly symbolic) bytes
	endian := func(little bool, n int) Intrinsic {
		return func(c *CallCtx) []Outcome {
			sl, ok := c.args[1].(SliceV)
			if !ok || sl.len < n {
				if ok {
					return c.panicOut("index-out-of-range")
				}
				unm("binary.*Endian on %T", c.args[1])
			}
			av := c.st.heap.objs[sl.obj].(*ArrayV)
			v := I(0)
			for i := 0; i < n; i++ {
				b := av.e[sl.off+i].(*Term)
				sh := i
				if !little {
					sh = n - 1 - i
				}
				v = Add(v, Mul(b, IBig(new(big.Int).Lsh(big.NewInt(1), uint(8*sh)))))
			}
			return c.ret(v)
		}
	}
	r("(encoding/binary.littleEndian).Uint64", endian(true, 8))
	r("(encoding/binary.littleEndian).Uint32", endian(true, 4))
	r("(encoding/binary.littleEndian).Uint16", endian(true, 2))
	r("(encoding/binary.bigEndian).Uint64", endian(false, 8))
	r("(encoding/binary.bigEndian).Uint32", endian(false, 4))
	r("(encoding/binary.bigEndian).Uint16", endian(false, 2))
	r("crypto/rand.Int", func(c *CallCtx) []Outcome {
		max := c.args[1].(Ptr)
		mv := c.st.heap.objs[max.obj].(OpaqueV).data.(*Term)
		if c.e.bound("crypto-rand-fixed", 0) > 0 {
			// harnesses for which the drawn values are irrelevant (they only need SOME identifiers)
			// fix every draw to one admissible value: the identifiers become constants
			c.e.noteAssume("crypto/rand.Int returns a fixed admissible value (bound crypto-rand-fixed: the property checked does not depend on the identifiers drawn)")
			var v *Term = I(7)
			if mc, ok := mv.ConstInt(); ok && mc <= 7 {
				v = I(0)
			}
			return c.ret(TupleV{Ptr{obj: c.st.newObj(OpaqueV{kind: "bigint", data: v})}, IfaceV{}})
		}
		v := FreshVar("crand", SInt)
		c.st.addDef(And(Le(I(0), v), Lt(v, mv)))
		return c.ret(TupleV{Ptr{obj: c.st.newObj(OpaqueV{kind: "bigint", data: v})}, IfaceV{}})
	})
	r("math/big.NewInt", func(c *CallCtx) []Outcome {
		return c.ret(Ptr{obj: c.st.newObj(OpaqueV{kind: "bigint", data: c.args[0].(*Term)})})
	})
	r("(*math/big.Int).Int64", func(c *CallCtx) []Outcome {
		p := c.args[0].(Ptr)
		return c.ret(c.st.heap.objs[p.obj].(OpaqueV).data.(*Term))
	})
	r("crypto/rand.Read", func(c *CallCtx) []Outcome {
		sl, ok := c.args[0].(SliceV)
		if !ok {
			unm("crypto/rand.Read into %T", c.args[0])
		}
		if sl.obj != 0 {
			av := c.st.heap.objs[sl.obj].(*ArrayV)
			nv := &ArrayV{e: append([]Value(nil), av.e...)}
			for i := 0; i < sl.len; i++ {
				b := FreshVar("crandb", SInt)
				c.st.addDef(And(Le(I(0), b), Le(b, I(255))))
				nv.e[sl.off+i] = b
			}
			c.st.heap.objs[sl.obj] = nv
		}
		return c.ret(TupleV{I(int64(sl.len)), IfaceV{}})
	})
	r("golang.org/x/oauth2.GenerateVerifier", func(c *CallCtx) []Outcome {
		// 32 bytes from crypto/rand, base64url: a fresh secret value
		if c.e.bound("crypto-rand-fixed", 0) > 0 {
			return c.ret(constStr("vrfr"))
		}
		s := c.st.newSymStr("verifier", 4)
		c.st.addDef(Ge(sLen(s), I(1)))
		return c.ret(s)
	})

	// ------------------------------------------------------------ go-redis result decoding
	r("(*github.com/redis/go-redis/v9.SliceCmd).Scan", func(c *CallCtx) []Outcome { return c.e.redisScan(c) })

	// ------------------------------------------------------------ encoding/json
	r("encoding/json.Unmarshal", func(c *CallCtx) []Outcome { return c.e.jsonUnmarshal(c) })

	// ------------------------------------------------------------ jwx
	r(jwxJWT+".WithValidate", func(c *CallCtx) []Outcome {
		return c.ret(IfaceV{t: c.e.namedType(jwxJWT, "ParseOption"), v: OpaqueV{kind: "jwtopt", data: "validate=" + c.args[0].(*Term).String()}})
	})
	r(jwxJWT+".WithVerify", func(c *CallCtx) []Outcome {
		return c.ret(IfaceV{t: c.e.namedType(jwxJWT, "ParseOption"), v: OpaqueV{kind: "jwtopt", data: "verify=" + c.args[0].(*Term).String()}})
	})
	r(jwxJWT+".Parse", func(c *CallCtx) []Outcome {
		opts := c.e.sliceValues(c.st, c.args[1])
		var names []string
		for _, o := range opts {
			op, ok := o.(IfaceV).v.(OpaqueV)
			if !ok || op.kind != "jwtopt" {
				unm("jwt.Parse with an unmodelled option")
			}
			names = append(names, op.data.(string))
		}
		sort.Strings(names)
		if strings.Join(names, ",") != "validate=false,verify=false" {
			unm("jwt.Parse with options %v (only parse-without-verify is modelled; verification is jws.Verify)", names)
		}
		b, ok := c.args[0].(BytesV)
		if !ok {
			unm("jwt.Parse on %T", c.args[0])
		}
		var outs []Outcome
		for _, m := range c.e.lookupToken(c.st, b.s) {
			if m.spec == nil {
				// not a harness token: such strings are not JWTs (stated assumption)
				outs = append(outs, Outcome{st: m.st, val: TupleV{IfaceV{}, c.e.newError(m.st, "not a token")}})
				continue
			}
			a, bb := c.e.forkOn(m.st, m.spec.wellFormed)
			if a != nil {
				outs = append(outs, Outcome{st: a, val: TupleV{IfaceV{t: c.e.namedType(jwxJWT, "Token"), v: OpaqueV{kind: "jwt", data: m.spec}}, IfaceV{}}})
			}
			if bb != nil {
				outs = append(outs, Outcome{st: bb, val: TupleV{IfaceV{}, c.e.newError(bb, "malformed token")}})
			}
		}
		return outs
	})
	r("opaque:jwt.Get", func(c *CallCtx) []Outcome {
		ts := c.args[0].(IfaceV).v.(OpaqueV).data.(*tokSpec)
		claim := mustConstStr(c.args[1])
		basic := func(k types.BasicKind) types.Type { return types.Typ[k] }
		if claim != "nonce" {
			// any other claim the code under test asks for: absent, or present with an arbitrary
			// short string value -- drawn the first time it is asked for (deterministic names, so that
			// sibling paths agree), recorded as inputs "<token>-claim-<name>[-present]" which the native
			// token builder picks up
			st := c.st
			in := ts.name + "-claim-" + claim
			key := "jwtclaim:" + in
			var present *Term
			var val *Str
			if v, ok := st.ghost[key]; ok {
				tv := v.(TupleV)
				present, val = tv[0].(*Term), tv[1].(*Str)
			} else {
				present = NamedVar("b_"+in+"-present", SBool)
				arr, n := NamedVar("s_"+in+"_a", SArr), NamedVar("s_"+in+"_n", SInt)
				const capv = 4
				cs := []*Term{Le(I(0), n), Le(n, I(capv))}
				for i := 0; i < capv; i++ {
					b := Select(arr, I(int64(i)))
					cs = append(cs, Le(I(0), b), Le(b, I(255)))
				}
				st.addDef(And(cs...))
				val = &Str{p: []Piece{{arr: arr, off: I(0), n: n, cap: capv}}}
				st.ghost[key] = TupleV{present, val}
				st.inputs = append(st.inputs, InputRec{Name: in + "-present", Kind: "bool", T: present}, InputRec{Name: in, Kind: "string", S: val})
			}
			a, b := c.e.forkOn(st, present)
			var outs []Outcome
			if a != nil {
				outs = append(outs, Outcome{st: a, val: TupleV{IfaceV{t: basic(types.String), v: val}, tTrue}})
			}
			if b != nil {
				outs = append(outs, Outcome{st: b, val: TupleV{IfaceV{}, tFalse}})
			}
			return outs
		}
		conds := make([]*Term, 5)
		for k := 0; k < 5; k++ {
			conds[k] = Eq(ts.nonceKind, I(int64(k)))
		}
		sts := c.e.forkMany(c.st, conds)
		var outs []Outcome
		for k, s2 := range sts {
			if s2 == nil {
				continue
			}
			var v Value
			switch k {
			case 0:
				v = TupleV{IfaceV{}, tFalse}
			case 1:
				v = TupleV{IfaceV{t: basic(types.String), v: ts.nonce}, tTrue}
			case 2:
				v = TupleV{IfaceV{t: basic(types.Float64), v: FloatV{1}}, tTrue}
			case 3:
				v = TupleV{IfaceV{t: basic(types.Bool), v: tTrue}, tTrue}
			default:
				v = TupleV{IfaceV{t: types.NewSlice(types.NewInterfaceType(nil, nil)), v: SliceV{}}, tTrue}
			}
			outs = append(outs, Outcome{st: s2, val: v})
		}
		return outs
	})
	r("opaque:jwt.Audience", func(c *CallCtx) []Outcome {
		ts := c.args[0].(IfaceV).v.(OpaqueV).data.(*tokSpec)
		conds := []*Term{Eq(ts.naud, I(0)), Eq(ts.naud, I(1)), Eq(ts.naud, I(2))}
		sts := c.e.forkMany(c.st, conds)
		var outs []Outcome
		for k, s2 := range sts {
			if s2 == nil {
				continue
			}
			if k == 0 {
				outs = append(outs, Outcome{st: s2, val: SliceV{}})
				continue
			}
			vals := make([]Value, k)
			for i := 0; i < k; i++ {
				vals[i] = ts.aud[i]
			}
			outs = append(outs, Outcome{st: s2, val: c.e.mkSlice(s2, vals)})
		}
		return outs
	})
	r("opaque:jwt.Expiration", func(c *CallCtx) []Outcome {
		ts := c.args[0].(IfaceV).v.(OpaqueV).data.(*tokSpec)
		return c.ret(TimeV{ts.exp})
	})
	r(jwxJWS+".WithInferAlgorithmFromKey", func(c *CallCtx) []Outcome {
		return c.ret(IfaceV{t: c.e.namedType(jwxJWS, "WithKeySetSuboption"), v: OpaqueV{kind: "jwssub", data: "infer=" + c.args[0].(*Term).String()}})
	})
	r(jwxJWS+".WithKeySet", func(c *CallCtx) []Outcome {
		set := c.args[0].(IfaceV)
		var subs []string
		for _, o := range c.e.sliceValues(c.st, c.args[1]) {
			op, ok := o.(IfaceV).v.(OpaqueV)
			if !ok {
				unm("jws.WithKeySet suboption")
			}
			subs = append(subs, op.data.(string))
		}
		return c.ret(IfaceV{t: c.e.namedType(jwxJWS, "VerifyOption"), v: OpaqueV{kind: "jwsopt", data: &jwsKeySetOpt{set: set, subs: strings.Join(subs, ",")}}})
	})
	r(jwxJWS+".Verify", func(c *CallCtx) []Outcome {
		opts := c.e.sliceValues(c.st, c.args[1])
		if len(opts) != 1 {
			unm("jws.Verify with %d options (only WithKeySet(set, WithInferAlgorithmFromKey(true)) is modelled)", len(opts))
		}
		op, ok := opts[0].(IfaceV).v.(OpaqueV)
		if !ok || op.kind != "jwsopt" {
			unm("jws.Verify option")
		}
		ko := op.data.(*jwsKeySetOpt)
		if ko.subs != "infer=true" {
			unm("jws.Verify key-set suboptions %q", ko.subs)
		}
		b := c.args[0].(BytesV)
		var outs []Outcome
		for _, m := range c.e.lookupToken(c.st, b.s) {
			var valid *Term
			switch {
			case ko.set.t == nil || m.spec == nil:
				valid = tFalse
			default:
				ts := m.spec
				ks := ko.set.v.(OpaqueV).data.(string)
				if ks == "good" {
					valid = And(ts.wellFormed, ts.sigValid)
				} else {
					k := "sigvalid:" + ts.name + ":" + ks
					if v, ok := m.st.ghost[k]; ok {
						valid = v.(*Term)
					} else {
						valid = FreshVar("sig_"+ts.name+"_"+ks, SBool)
						m.st.ghost[k] = valid
					}
					valid = And(ts.wellFormed, valid)
				}
			}
			a, bb := c.e.forkOn(m.st, valid)
			if a != nil {
				outs = append(outs, Outcome{st: a, val: TupleV{BytesV{s: constStr("{}")}, IfaceV{}}})
			}
			if bb != nil {
				outs = append(outs, Outcome{st: bb, val: TupleV{BytesV{isNil: true, s: emptyStr}, c.e.newError(bb, "verify")}})
			}
		}
		return outs
	})
}

type tokMatch struct {
	st   *State
	spec *tokSpec // nil: not a harness token
}

// lookupToken resolves a string to the harness token it equals (forking over the feasible ones).
func (e *Engine) lookupToken(st *State, s *Str) []tokMatch {
	var toks []*tokSpec
	if v, ok := st.ghost["toks"]; ok {
		toks = v.([]*tokSpec)
	}
	for _, t := range toks {
		if t.s == s {
			return []tokMatch{{st, t}}
		}
	}
	e.noteAssume("strings that are not harness-built tokens (vn.JWT) are not parseable JWTs")
	var conds []*Term
	var none []*Term
	for _, t := range toks {
		eq := st.sEq(s, t.s)
		conds = append(conds, eq)
		none = append(none, Not(eq))
	}
	conds = append(conds, And(none...))
	sts := e.forkMany(st, conds)
	var out []tokMatch
	for i, s2 := range sts {
		if s2 == nil {
			continue
		}
		if i < len(toks) {
			out = append(out, tokMatch{s2, toks[i]})
		} else {
			out = append(out, tokMatch{s2, nil})
		}
	}
	return out
}

type mrandState struct {
	seed *Term
	outs []*Term
}

type jwkOpt struct {
	name string
	dur  *Term
	val  Value
}

type jwkReg struct {
	uri  string
	opts []*jwkOpt
}

type jwkCacheData struct {
	opts []*jwkOpt
	regs []jwkReg
}

type jwsKeySetOpt struct {
	set  IfaceV
	subs string
}

// urlInvalid is the uninterpreted predicate "url.Parse(s) fails" with functional consistency.
func (st *State) urlInvalid(s *Str) *Term {
	if c, ok := s.Const(); ok {
		_, err := url.Parse(c)
		return B(err != nil)
	}
	if _, ok := st.ghost[strKey("url", s)]; ok {
		return tFalse
	}
	type app struct {
		s *Str
		r *Term
	}
	var apps []app
	if v, ok := st.ghost["urlinvalid"]; ok {
		apps = v.([]app)
	}
	for _, a := range apps {
		if a.s == s {
			return a.r
		}
	}
	r := FreshVar("urlinvalid", SBool)
	for _, a := range apps {
		st.addDef(Implies(st.sEq(a.s, s), Eq(a.r, r)))
	}
	st.ghost["urlinvalid"] = append(append([]app(nil), apps...), app{s, r})
	return r
}

// urlParse models url.Parse: exact for constants and for strings built by vn.URL; otherwise
// (arbitrary symbolic string) an abstract result: error or a URL whose components are unknown.
func (e *Engine) urlParse(c *CallCtx, s *Str) []Outcome {
	ut := e.namedType("net/url", "URL")
	mk := func(st *State, sp *urlSpec) Value {
		host := sp.host
		if pc, ok := sp.port.Const(); !ok || pc != "" {
			host = sConcat(sConcat(host, constStr(":")), sp.port)
		}
		u := e.newStruct(st, ut, map[string]Value{"Scheme": sp.scheme, "Host": host, "Path": sp.path, "RawQuery": sp.query})
		st.ghost["urlobj:"+ptrKey(u)] = sp
		return u
	}
	if cs, ok := s.Const(); ok {
		u, err := url.Parse(cs)
		if err != nil {
			return c.ret(TupleV{Ptr{}, e.newError(c.st, "parse url")})
		}
		sp := &urlSpec{scheme: constStr(u.Scheme), host: constStr(u.Hostname()), port: constStr(u.Port()), path: constStr(u.Path), query: constStr(u.RawQuery)}
		p := mk(c.st, sp).(Ptr)
		sv := c.st.load(p).(*StructV)
		n := &StructV{f: append([]Value(nil), sv.f...)}
		n.f[fieldIndex(ut, "Host")] = constStr(u.Host)
		n.f[fieldIndex(ut, "Opaque")] = constStr(u.Opaque)
		n.f[fieldIndex(ut, "Fragment")] = constStr(u.Fragment)
		c.st.heap.objs[p.obj] = n
		c.st.ghost["urlraw:"+ptrKey(p)] = s // (*URL).String() of a constant is what the real parser prints
		return c.ret(TupleV{p, IfaceV{}})
	}
	if v, ok := c.st.ghost[strKey("url", s)]; ok {
		return c.ret(TupleV{mk(c.st, v.(*urlSpec)), IfaceV{}})
	}
	// abstract: invalid or a URL with unknown components (fresh symbolic strings per source)
	invalid := c.st.urlInvalid(s)
	a, b := e.forkOn(c.st, invalid)
	var outs []Outcome
	if a != nil {
		outs = append(outs, Outcome{st: a, val: TupleV{Ptr{}, e.newError(a, "parse url")}})
	}
	if b != nil {
		k := strKey("urlabs", s)
		var sp *urlSpec
		if v, ok := b.ghost[k]; ok {
			sp = v.(*urlSpec)
		} else {
			sp = &urlSpec{scheme: b.newSymStr("u_scheme", 5), host: b.newSymStr("u_host", 4), port: constStr(""), path: b.newSymStr("u_path", sCap(s)), query: b.newSymStr("u_query", 4)}
			b.ghost[k] = sp
		}
		outs = append(outs, Outcome{st: b, val: TupleV{mk(b, sp), IfaceV{}}})
	}
	return outs
}

// parseQuery models url.ParseQuery. Encode() output is mapped back to its source (documented
// round trip); any other string is parsed exactly under the stated assumption that it contains
// no '%', '+' or ';' (no unescaping needed), with at most `parsequery-max-params` '&' separators.
func (e *Engine) parseQuery(c *CallCtx, s *Str) []Outcome {
	st := c.st
	if v, ok := st.ghost[strKey("encoded", s)]; ok {
		src := v.(MapV)
		mo := st.heap.objs[src.obj].(*MapObj)
		n := &MapObj{entries: append([]MapEntry(nil), mo.entries...)}
		return c.ret(TupleV{MapV{obj: st.newObj(n)}, IfaceV{}})
	}
	if cs, ok := s.Const(); ok {
		vals, err := url.ParseQuery(cs)
		mo := &MapObj{}
		var keys []string
		for k := range vals {
			keys = append(keys, k)
		}
		sort.Strings(keys)
		for _, k := range keys {
			var vs []Value
			for _, v := range vals[k] {
				vs = append(vs, constStr(v))
			}
			mo.entries = append(mo.entries, MapEntry{k: constStr(k), v: e.mkSlice(st, vs)})
		}
		var ev Value = IfaceV{}
		if err != nil {
			ev = e.newError(st, "parse query")
		}
		return c.ret(TupleV{MapV{obj: st.newObj(mo)}, ev})
	}
	e.noteAssume("url.ParseQuery inputs other than Values.Encode() output contain no '%', '+' or ';' (percent-decoding of request queries is outside the model)")
	bad := st.sContainsAny(s, "%+;")
	if st.check(Not(bad)) == Unsat {
		e.endPath(st)
		return nil
	}
	st.assume(Not(bad))
	k := e.bound("parsequery-max-params", 2)
	outs := st.sSplitByte(s, '&', k-1)
	conds := make([]*Term, len(outs))
	for i, o := range outs {
		conds[i] = o.cond
	}
	sts := e.forkMany(st, conds)
	var res []Outcome
	for i, s2 := range sts {
		if s2 == nil {
			continue
		}
		if outs[i].parts == nil {
			e.noteAssume(fmt.Sprintf("url.ParseQuery: at most %d parameters per request query (bound parsequery-max-params)", k))
			e.endPath(s2)
			continue
		}
		res = append(res, e.parseQueryParts(c, s2, outs[i].parts)...)
	}
	return res
}

// parseQueryParts builds the Values map from '&'-separated parts, forking on '=' presence and on
// emptiness of each part and on key aliasing.
func (e *Engine) parseQueryParts(c *CallCtx, st *State, parts []*Str) []Outcome {
	type item struct {
		st *State
		mo int
	}
	work := []item{{st: st, mo: st.newObj(&MapObj{})}}
	for _, part := range parts {
		var next []item
		for _, it := range work {
			s := it.st
			// empty part => skipped
			emp, non := e.forkOn(s, Eq(sLen(part), I(0)))
			if emp != nil {
				next = append(next, item{emp, it.mo})
			}
			if non == nil {
				continue
			}
			idx := non.sIndexConst(part, "=")
			hasEq, noEq := e.forkOn(non, Ge(idx, I(0)))
			add := func(s2 *State, k, v *Str) {
				// m[k] = append(m[k], v)
				mo := s2.heap.objs[it.mo].(*MapObj)
				cands := e.mapCandidates(s2, mo, k)
				conds := make([]*Term, len(cands))
				for i, cd := range cands {
					conds[i] = cd.cond
				}
				sts := e.forkMany(s2, conds)
				for i, s3 := range sts {
					if s3 == nil {
						continue
					}
					old := s3.heap.objs[it.mo].(*MapObj)
					n := &MapObj{entries: append([]MapEntry(nil), old.entries...)}
					if cands[i].index >= 0 {
						prev := e.sliceValues(s3, old.entries[cands[i].index].v)
						n.entries[cands[i].index] = MapEntry{k: old.entries[cands[i].index].k, v: e.mkSlice(s3, append(append([]Value(nil), prev...), v))}
					} else {
						n.entries = append(n.entries, MapEntry{k: k, v: e.mkSlice(s3, []Value{v})})
					}
					s3.heap.objs[it.mo] = n
					next = append(next, item{s3, it.mo})
				}
			}
			if hasEq != nil {
				add(hasEq, hasEq.sSlice(part, I(0), idx), hasEq.sSlice(part, Add(idx, I(1)), sLen(part)))
			}
			if noEq != nil {
				add(noEq, part, emptyStr)
			}
		}
		work = next
	}
	var outs []Outcome
	for _, it := range work {
		outs = append(outs, Outcome{st: it.st, val: TupleV{MapV{obj: it.mo}, IfaceV{}}})
	}
	return outs
}

// jsonUnmarshal models encoding/json.Unmarshal on abstract documents (vn.JSONText) for targets
// of type *struct or **struct with string / int fields. Document and member kinds are symbolic;
// the stub forks on the document kind and on "some member has the wrong kind" only.
func (e *Engine) jsonUnmarshal(c *CallCtx) []Outcome {
	st := c.st
	b, ok := c.args[0].(BytesV)
	if !ok {
		unm("json.Unmarshal on %T", c.args[0])
	}
	var docs []*jsonDoc
	if v, ok := st.ghost["jsondocs"]; ok {
		docs = v.([]*jsonDoc)
	}
	var doc *jsonDoc
	for _, d := range docs {
		if d.s == b.s {
			doc = d
		}
	}
	if doc == nil {
		unm("json.Unmarshal on bytes that are not a harness JSON document")
	}
	target := c.args[1].(IfaceV)
	if target.t == nil {
		return c.ret(e.newError(st, "json: Unmarshal(nil)"))
	}
	pt, ok := target.t.Underlying().(*types.Pointer)
	if !ok {
		return c.ret(e.newError(st, "json: Unmarshal(non-pointer)"))
	}
	p := target.v.(Ptr)
	if p.IsNil() {
		return c.ret(e.newError(st, "json: Unmarshal(nil pointer)"))
	}
	conds := []*Term{Eq(doc.kind, I(0)), Eq(doc.kind, I(1)), Eq(doc.kind, I(2)), Eq(doc.kind, I(3))}
	sts := e.forkMany(st, conds)
	var outs []Outcome
	for k, s2 := range sts {
		if s2 == nil {
			continue
		}
		switch k {
		case 0:
			outs = append(outs, Outcome{st: s2, val: e.newError(s2, "json: syntax error")})
		case 1:
			if _, isPP := pt.Elem().Underlying().(*types.Pointer); isPP {
				s2.store(p, Ptr{})
			}
			outs = append(outs, Outcome{st: s2, val: IfaceV{}})
		case 2:
			outs = append(outs, Outcome{st: s2, val: e.newError(s2, "json: cannot unmarshal non-object")})
		default:
			outs = append(outs, e.jsonObject(c, s2, doc, pt, p)...)
		}
	}
	return outs
}

func (e *Engine) jsonObject(c *CallCtx, st *State, doc *jsonDoc, pt *types.Pointer, p Ptr) []Outcome {
	elem := pt.Elem()
	sp := p
	if pp, isPP := elem.Underlying().(*types.Pointer); isPP {
		inner := st.load(p).(Ptr)
		if inner.IsNil() {
			inner = Ptr{obj: st.newObj(zero(pp.Elem()))}
			st.store(p, inner)
		}
		sp = inner
		elem = pp.Elem()
	}
	stt, ok := elem.Underlying().(*types.Struct)
	if !ok {
		unm("json.Unmarshal into %v", elem)
	}
	type assign struct {
		fp   Ptr
		mem  *jsonMember
		isStr bool
	}
	var failed []*Term
	var assigns []assign
	for i := 0; i < stt.NumFields(); i++ {
		tag := stt.Tag(i)
		name := stt.Field(i).Name()
		if j := strings.Index(tag, `json:"`); j >= 0 {
			rest := tag[j+6:]
			if k := strings.IndexAny(rest, `",`); k >= 0 {
				if rest[:k] != "" {
					name = rest[:k]
				}
			}
		}
		var mem *jsonMember
		for k := range doc.members {
			if doc.members[k].name == name {
				mem = &doc.members[k]
			}
		}
		if mem == nil {
			continue
		}
		fp := Ptr{obj: sp.obj, path: append(append([]int(nil), sp.path...), i)}
		ft := stt.Field(i).Type().Underlying()
		bt, isB := ft.(*types.Basic)
		switch {
		case isB && bt.Info()&types.IsString != 0:
			failed = append(failed, Or(Eq(mem.kind, I(2)), Eq(mem.kind, I(3)), Eq(mem.kind, I(4))))
			assigns = append(assigns, assign{fp, mem, true})
		case isB && bt.Info()&types.IsInteger != 0:
			failed = append(failed, Or(Eq(mem.kind, I(1)), Eq(mem.kind, I(3)), Eq(mem.kind, I(4))))
			assigns = append(assigns, assign{fp, mem, false})
		default:
			failed = append(failed, And(Not(Eq(mem.kind, I(0))), Not(Eq(mem.kind, I(5)))))
		}
	}
	bad, good := e.forkOn(st, Or(failed...))
	var outs []Outcome
	if bad != nil {
		outs = append(outs, Outcome{st: bad, val: e.newError(bad, "json: cannot unmarshal member")})
	}
	if good != nil {
		for _, a := range assigns {
			old := good.load(a.fp)
			if a.isStr {
				present := Eq(a.mem.kind, I(1))
				// members that stand for documents keep their identity: fork instead of ite
				isDoc := false
				if v, ok := good.ghost["docs"]; ok {
					for _, d := range v.([]*Str) {
						if d == a.mem.str {
							isDoc = true
						}
					}
				}
				if isDoc {
					good.pendingDocAssign = append(good.pendingDocAssign, docAssign{a.fp, a.mem.str, present})
					continue
				}
				good.store(a.fp, good.sIte(present, a.mem.str, old.(*Str)))
			} else {
				good.store(a.fp, Ite(Eq(a.mem.kind, I(2)), a.mem.num, old.(*Term)))
			}
		}
		// resolve document-valued members by forking on presence
		work := []*State{good}
		for len(work) > 0 {
			s := work[0]
			work = work[1:]
			if len(s.pendingDocAssign) == 0 {
				outs = append(outs, Outcome{st: s, val: IfaceV{}})
				continue
			}
			da := s.pendingDocAssign[0]
			s.pendingDocAssign = append([]docAssign(nil), s.pendingDocAssign[1:]...)
			y, n := e.forkOn(s, da.present)
			if y != nil {
				y.store(da.fp, da.s)
				work = append(work, y)
			}
			if n != nil {
				work = append(work, n)
			}
		}
	}
	return outs
}

type docAssign struct {
	fp      Ptr
	s       *Str
	present *Term
}

var _ ssa.Value

// redisScan models (*redis.SliceCmd).Scan for HMGET results: the i-th value goes to the struct
// field tagged `redis:"<i-th field name>"`; nil values are skipped; strings into string fields,
// instants into time.Time fields (go-redis' RFC3339Nano round trip is trusted).
func (e *Engine) redisScan(c *CallCtx) []Outcome {
	st := c.st
	cmd := c.args[0].(Ptr)
	if cmd.IsNil() {
		return c.panicOut("nil-deref-slicecmd")
	}
	ct := e.namedType("github.com/redis/go-redis/v9", "SliceCmd")
	sv := st.load(cmd).(*StructV)
	base := sv.f[fieldIndex(ct, "baseCmd")].(*StructV)
	bt := ct.Underlying().(*types.Struct).Field(fieldIndex(ct, "baseCmd")).Type()
	if errv := base.f[fieldIndex(bt, "err")].(IfaceV); errv.t != nil {
		return c.ret(errv)
	}
	args := e.sliceValues(st, base.f[fieldIndex(bt, "args")])
	vals := e.sliceValues(st, sv.f[fieldIndex(ct, "val")])
	if len(args) < 2 {
		return c.ret(e.newError(st, "redis: Scan without keys"))
	}
	keys := args[2:]
	dst := c.args[1].(IfaceV)
	pt, ok := dst.t.Underlying().(*types.Pointer)
	if !ok {
		return c.ret(e.newError(st, "redis: Scan(non-pointer)"))
	}
	stt, ok := pt.Elem().Underlying().(*types.Struct)
	if !ok {
		unm("redis Scan into %v", pt.Elem())
	}
	dp := dst.v.(Ptr)
	for i, kv := range keys {
		if i >= len(vals) {
			break
		}
		kname := mustConstStr(kv.(IfaceV).v)
		val := vals[i].(IfaceV)
		if val.t == nil {
			continue
		}
		for fi := 0; fi < stt.NumFields(); fi++ {
			tag := stt.Tag(fi)
			j := strings.Index(tag, `redis:"`)
			if j < 0 {
				continue
			}
			rest := tag[j+7:]
			kq := strings.IndexByte(rest, '"')
			if kq < 0 || rest[:kq] != kname {
				continue
			}
			fp := Ptr{obj: dp.obj, path: append(append([]int(nil), dp.path...), fi)}
			ft := stt.Field(fi).Type()
			switch v := val.v.(type) {
			case *Str:
				if isNamed(ft, "time", "Time") {
					if tv, ok := st.ghost[strKey("timefmt", v)]; ok {
						st.store(fp, tv)
					} else {
						unm("redis Scan: parsing a time from an arbitrary string")
					}
				} else {
					st.store(fp, v)
				}
			case TimeV:
				if isNamed(ft, "time", "Time") {
					st.store(fp, v)
				} else {
					st.store(fp, e.opaqueString(st, "timefmt"))
				}
			default:
				unm("redis Scan of %T", val.v)
			}
		}
	}
	return c.ret(IfaceV{})
}
