package main

// Hash-consed SMT terms over sorts Int, Bool and (Array Int Int), with constant
// folding so that concrete executions stay concrete.

import (
	"fmt"
	"math/big"
	"sort"
	"strconv"
	"strings"
	"sync"
)

type Sort int

const (
	SInt Sort = iota
	SBool
	SArr
)

func (s Sort) String() string {
	switch s {
	case SInt:
		return "Int"
	case SBool:
		return "Bool"
	}
	return "(Array Int Int)"
}

type Term struct {
	op   string // "const","var","+","-","*","neg","div","mod","<","<=","=","not","and","or","ite","select","store","uf"
	args []*Term
	sort Sort
	iv   *big.Int // const int
	bv   bool     // const bool
	name string   // var / uf name
	id   int
}

var (
	termMu    sync.Mutex
	termTab   = map[string]*Term{}
	termCount int
	varSeq    int
)

func mk(op string, sort Sort, name string, iv *big.Int, bv bool, args ...*Term) *Term {
	var sb strings.Builder
	sb.WriteString(op)
	sb.WriteByte('|')
	sb.WriteString(name)
	sb.WriteByte('|')
	if iv != nil {
		sb.WriteString(iv.String())
	}
	if bv {
		sb.WriteByte('T')
	}
	sb.WriteByte(byte('0' + sort))
	for _, a := range args {
		sb.WriteByte(',')
		sb.WriteString(strconv.Itoa(a.id))
	}
	k := sb.String()
	termMu.Lock()
	defer termMu.Unlock()
	if t, ok := termTab[k]; ok {
		return t
	}
	// Hash-consing is an optimisation only (structural sharing, cheap equality shortcuts). Most
	// terms mention per-path fresh variables and are never looked up again, so the table is
	// dropped when it grows large; term ids stay unique.
	if len(termTab) > 1500000 {
		termTab = make(map[string]*Term, 1<<16)
	}
	termCount++
	t := &Term{op: op, args: args, sort: sort, iv: iv, bv: bv, name: name, id: termCount}
	termTab[k] = t
	return t
}

var (
	tTrue  = mk("const", SBool, "", nil, true)
	tFalse = mk("const", SBool, "", nil, false)
)

func I(v int64) *Term       { return mk("const", SInt, "", big.NewInt(v), false) }
func IBig(v *big.Int) *Term { return mk("const", SInt, "", new(big.Int).Set(v), false) }
func B(v bool) *Term {
	if v {
		return tTrue
	}
	return tFalse
}

// FreshVar creates a new, uniquely named constant of the given sort.
func FreshVar(prefix string, s Sort) *Term {
	termMu.Lock()
	varSeq++
	n := varSeq
	termMu.Unlock()
	return mk("var", s, fmt.Sprintf("%s!%d", sanitize(prefix), n), nil, false)
}

// NamedVar creates (or returns) the constant with exactly this name.
func NamedVar(name string, s Sort) *Term { return mk("var", s, sanitize(name), nil, false) }

func sanitize(s string) string {
	var sb strings.Builder
	for _, r := range s {
		if r >= 'a' && r <= 'z' || r >= 'A' && r <= 'Z' || r >= '0' && r <= '9' || r == '_' || r == '.' || r == '!' || r == '-' {
			sb.WriteRune(r)
		} else {
			sb.WriteByte('_')
		}
	}
	return sb.String()
}

func (t *Term) IsConst() bool { return t.op == "const" }
func (t *Term) Int64() int64  { return t.iv.Int64() }
func (t *Term) IsTrue() bool  { return t == tTrue }
func (t *Term) IsFalse() bool { return t == tFalse }

// ConstInt returns the value if the term is an integer constant that fits int64.
func (t *Term) ConstInt() (int64, bool) {
	if t.op == "const" && t.sort == SInt && t.iv.IsInt64() {
		return t.iv.Int64(), true
	}
	return 0, false
}

func Add(a, b *Term) *Term {
	if a.IsConst() && b.IsConst() {
		return IBig(new(big.Int).Add(a.iv, b.iv))
	}
	if a.IsConst() && a.iv.Sign() == 0 {
		return b
	}
	if b.IsConst() && b.iv.Sign() == 0 {
		return a
	}
	// (x + c1) + c2 -> x + (c1+c2)
	if b.IsConst() && a.op == "+" && len(a.args) == 2 && a.args[1].IsConst() {
		return Add(a.args[0], IBig(new(big.Int).Add(a.args[1].iv, b.iv)))
	}
	if a.IsConst() {
		a, b = b, a
	}
	return mk("+", SInt, "", nil, false, a, b)
}

func Sub(a, b *Term) *Term {
	if a.IsConst() && b.IsConst() {
		return IBig(new(big.Int).Sub(a.iv, b.iv))
	}
	if b.IsConst() {
		return Add(a, IBig(new(big.Int).Neg(b.iv)))
	}
	if a == b {
		return I(0)
	}
	return mk("-", SInt, "", nil, false, a, b)
}

func Neg(a *Term) *Term { return Sub(I(0), a) }

func Mul(a, b *Term) *Term {
	if a.IsConst() && b.IsConst() {
		return IBig(new(big.Int).Mul(a.iv, b.iv))
	}
	if a.IsConst() {
		a, b = b, a
	}
	if b.IsConst() {
		if b.iv.Sign() == 0 {
			return I(0)
		}
		if b.iv.Cmp(big.NewInt(1)) == 0 {
			return a
		}
	}
	return mk("*", SInt, "", nil, false, a, b)
}

// DivFloor / ModFloor are SMT-LIB div/mod (floor for positive divisor).
func DivFloor(a, b *Term) *Term {
	if a.IsConst() && b.IsConst() && b.iv.Sign() > 0 {
		q := new(big.Int)
		m := new(big.Int)
		q.DivMod(a.iv, b.iv, m)
		return IBig(q)
	}
	return mk("div", SInt, "", nil, false, a, b)
}

func ModFloor(a, b *Term) *Term {
	if a.IsConst() && b.IsConst() && b.iv.Sign() > 0 {
		q := new(big.Int)
		m := new(big.Int)
		q.DivMod(a.iv, b.iv, m)
		return IBig(m)
	}
	return mk("mod", SInt, "", nil, false, a, b)
}

func Lt(a, b *Term) *Term {
	if a.IsConst() && b.IsConst() {
		return B(a.iv.Cmp(b.iv) < 0)
	}
	if a == b {
		return tFalse
	}
	return mk("<", SBool, "", nil, false, a, b)
}

func Le(a, b *Term) *Term {
	if a.IsConst() && b.IsConst() {
		return B(a.iv.Cmp(b.iv) <= 0)
	}
	if a == b {
		return tTrue
	}
	return mk("<=", SBool, "", nil, false, a, b)
}

func Gt(a, b *Term) *Term { return Lt(b, a) }
func Ge(a, b *Term) *Term { return Le(b, a) }

func Eq(a, b *Term) *Term {
	if a == b {
		return tTrue
	}
	if a.sort != b.sort {
		panic(fmt.Sprintf("Eq sort mismatch %v %v", a, b))
	}
	if a.IsConst() && b.IsConst() {
		if a.sort == SInt {
			return B(a.iv.Cmp(b.iv) == 0)
		}
		return B(a.bv == b.bv)
	}
	if a.sort == SBool {
		if a.IsConst() {
			a, b = b, a
		}
		if b.IsConst() {
			if b.bv {
				return a
			}
			return Not(a)
		}
	}
	if a.id > b.id {
		a, b = b, a
	}
	return mk("=", SBool, "", nil, false, a, b)
}

func Ne(a, b *Term) *Term { return Not(Eq(a, b)) }

func Not(a *Term) *Term {
	if a.IsConst() {
		return B(!a.bv)
	}
	if a.op == "not" {
		return a.args[0]
	}
	return mk("not", SBool, "", nil, false, a)
}

func And(ts ...*Term) *Term {
	var out []*Term
	seen := map[int]bool{}
	for _, t := range ts {
		if t.IsConst() {
			if !t.bv {
				return tFalse
			}
			continue
		}
		if t.op == "and" {
			for _, a := range t.args {
				if !seen[a.id] {
					seen[a.id] = true
					out = append(out, a)
				}
			}
			continue
		}
		if !seen[t.id] {
			seen[t.id] = true
			out = append(out, t)
		}
	}
	for _, t := range out {
		if t.op == "not" && seen[t.args[0].id] {
			return tFalse
		}
	}
	if len(out) == 0 {
		return tTrue
	}
	if len(out) == 1 {
		return out[0]
	}
	return mk("and", SBool, "", nil, false, out...)
}

func Or(ts ...*Term) *Term {
	var out []*Term
	seen := map[int]bool{}
	for _, t := range ts {
		if t.IsConst() {
			if t.bv {
				return tTrue
			}
			continue
		}
		if t.op == "or" {
			for _, a := range t.args {
				if !seen[a.id] {
					seen[a.id] = true
					out = append(out, a)
				}
			}
			continue
		}
		if !seen[t.id] {
			seen[t.id] = true
			out = append(out, t)
		}
	}
	for _, t := range out {
		if t.op == "not" && seen[t.args[0].id] {
			return tTrue
		}
	}
	if len(out) == 0 {
		return tFalse
	}
	if len(out) == 1 {
		return out[0]
	}
	return mk("or", SBool, "", nil, false, out...)
}

func Implies(a, b *Term) *Term { return Or(Not(a), b) }

func Ite(c, a, b *Term) *Term {
	if c.IsConst() {
		if c.bv {
			return a
		}
		return b
	}
	if a == b {
		return a
	}
	if a.sort == SBool {
		if a.IsConst() && b.IsConst() {
			if a.bv {
				return c
			}
			return Not(c)
		}
	}
	return mk("ite", a.sort, "", nil, false, c, a, b)
}

func Select(arr, idx *Term) *Term {
	// select over a store chain with constant indices
	for arr.op == "store" {
		if arr.args[1] == idx {
			return arr.args[2]
		}
		if arr.args[1].IsConst() && idx.IsConst() {
			arr = arr.args[0]
			continue
		}
		break
	}
	return mk("select", SInt, "", nil, false, arr, idx)
}

func Store(arr, idx, v *Term) *Term { return mk("store", SArr, "", nil, false, arr, idx, v) }

// UF application (uninterpreted function over Int/Bool arguments).
func UF(name string, ret Sort, args ...*Term) *Term {
	return mk("uf", ret, sanitize(name), nil, false, args...)
}

// ---------------------------------------------------------------- printing

// Decls collects the declarations needed by a term.
type declSet struct {
	vars map[string]Sort
	ufs  map[string]string // name -> signature
}

func collectDecls(t *Term, seen map[int]bool, d *declSet) {
	if seen[t.id] {
		return
	}
	seen[t.id] = true
	switch t.op {
	case "var":
		d.vars[t.name] = t.sort
	case "uf":
		var as []string
		for _, a := range t.args {
			as = append(as, a.sort.String())
		}
		d.ufs[t.name] = "(" + strings.Join(as, " ") + ") " + t.sort.String()
	}
	for _, a := range t.args {
		collectDecls(a, seen, d)
	}
}

// smt prints a term with let-sharing of sub-DAGs that occur more than once.
func smt(t *Term) string {
	refs := map[int]int{}
	var count func(*Term)
	count = func(x *Term) {
		refs[x.id]++
		if refs[x.id] > 1 {
			return
		}
		for _, a := range x.args {
			count(a)
		}
	}
	count(t)
	// shared non-leaf nodes, in topological (id) order: children have smaller ids than parents
	var shared []*Term
	var walk func(*Term)
	vis := map[int]bool{}
	walk = func(x *Term) {
		if vis[x.id] {
			return
		}
		vis[x.id] = true
		for _, a := range x.args {
			walk(a)
		}
		if refs[x.id] > 1 && len(x.args) > 0 && x != t {
			shared = append(shared, x)
		}
	}
	walk(t)
	sort.Slice(shared, func(i, j int) bool { return shared[i].id < shared[j].id })
	names := map[int]string{}
	var sb strings.Builder
	var pr func(x *Term)
	pr = func(x *Term) {
		if n, ok := names[x.id]; ok {
			sb.WriteString(n)
			return
		}
		switch x.op {
		case "const":
			if x.sort == SBool {
				if x.bv {
					sb.WriteString("true")
				} else {
					sb.WriteString("false")
				}
			} else if x.iv.Sign() < 0 {
				sb.WriteString("(- ")
				sb.WriteString(new(big.Int).Neg(x.iv).String())
				sb.WriteString(")")
			} else {
				sb.WriteString(x.iv.String())
			}
		case "var":
			sb.WriteString(x.name)
		case "uf":
			if len(x.args) == 0 {
				sb.WriteString(x.name)
				return
			}
			sb.WriteString("(")
			sb.WriteString(x.name)
			for _, a := range x.args {
				sb.WriteByte(' ')
				pr(a)
			}
			sb.WriteString(")")
		default:
			sb.WriteString("(")
			sb.WriteString(x.op)
			for _, a := range x.args {
				sb.WriteByte(' ')
				pr(a)
			}
			sb.WriteString(")")
		}
	}
	for i, s := range shared {
		sb.WriteString("(let ((")
		n := fmt.Sprintf("?s%d", i)
		sb.WriteString(n)
		sb.WriteByte(' ')
		pr(s)
		sb.WriteString(")) ")
		names[s.id] = n
	}
	pr(t)
	for range shared {
		sb.WriteString(")")
	}
	return sb.String()
}

func (t *Term) String() string {
	s := smt(t)
	if len(s) > 300 {
		return s[:300] + "..."
	}
	return s
}

// eval evaluates a term under a model (var name -> value); arrays are maps with default.
type ArrModel struct {
	def   *big.Int
	elems map[string]*big.Int
}
