package main

// Path-forking symbolic interpreter over go/ssa.

import (
	"fmt"
	"go/constant"
	"go/token"
	"go/types"
	"math/big"
	"strings"
	"sync/atomic"

	"golang.org/x/tools/go/ssa"
)

type unmodelled struct{ msg string }
type pathEnd struct{ reason string }

func unm(format string, args ...interface{}) { panic(unmodelled{fmt.Sprintf(format, args...)}) }

type Outcome struct {
	st   *State
	val  Value
	tail *TailCall
}

type TailCall struct {
	fn   Value // FuncV
	args []Value
}

type CallCtx struct {
	e    *Engine
	st   *State
	args []Value
	fn   *ssa.Function
	name string
	pos  token.Pos
	sig  *types.Signature
}

func (c *CallCtx) ret(v Value) []Outcome { return []Outcome{{st: c.st, val: v}} }

type Intrinsic func(c *CallCtx) []Outcome

// ---------------------------------------------------------------- operand evaluation

func (e *Engine) constValue(c *ssa.Const) Value {
	t := c.Type()
	if c.Value == nil {
		return zero(t)
	}
	if isNamed(t, "time", "Time") {
		unm("const time")
	}
	switch u := t.Underlying().(type) {
	case *types.Basic:
		switch {
		case u.Info()&types.IsBoolean != 0:
			return B(constant.BoolVal(c.Value))
		case u.Info()&types.IsInteger != 0:
			v := constant.ToInt(c.Value)
			if i, ok := constant.Int64Val(v); ok {
				return I(i)
			}
			bi, _ := new(big.Int).SetString(v.ExactString(), 10)
			return IBig(bi)
		case u.Info()&types.IsFloat != 0:
			f, _ := constant.Float64Val(c.Value)
			return FloatV{f}
		case u.Info()&types.IsString != 0:
			if c.Value.Kind() == constant.String {
				return constStr(constant.StringVal(c.Value))
			}
			// string(rune) constant
			if i, ok := constant.Int64Val(constant.ToInt(c.Value)); ok {
				return constStr(string(rune(i)))
			}
		}
	}
	unm("const of type %v", t)
	return nil
}

func (e *Engine) globalPtr(st *State, g *ssa.Global) Ptr {
	e.mu.Lock()
	id, ok := e.globals[g]
	if !ok {
		id = int(atomic.AddInt64(&objSeq, 1))
		e.globals[g] = id
	}
	e.mu.Unlock()
	if _, ok := st.heap.objs[id]; !ok {
		pkg := ""
		if g.Pkg != nil {
			pkg = g.Pkg.Pkg.Path()
		}
		if !e.initPkgs[pkg] && !strings.HasSuffix(g.Name(), "init$guard") {
			if v, ok := e.globalModel(st, g); ok {
				st.heap.objs[id] = v
				return Ptr{obj: id}
			}
			unm("global %s of uninitialised package %s", g.Name(), pkg)
		}
		st.heap.objs[id] = zero(g.Type().(*types.Pointer).Elem())
	}
	return Ptr{obj: id}
}

func (e *Engine) eval(st *State, f *Frame, v ssa.Value) Value {
	switch x := v.(type) {
	case *ssa.Const:
		return e.constValue(x)
	case *ssa.Global:
		return e.globalPtr(st, x)
	case *ssa.Function:
		return FuncV{fn: x}
	case *ssa.Builtin:
		return FuncV{intr: "builtin:" + x.Name()}
	}
	r, ok := f.regs[v]
	if !ok {
		panic(fmt.Sprintf("eval: no value for %s (%T) in %s", v.Name(), v, f.fn))
	}
	return r
}

// ---------------------------------------------------------------- running

var frameSeq int64

func (e *Engine) newFrame(fn *ssa.Function, args []Value, bind []Value, retTo ssa.Value) *Frame {
	f := &Frame{fn: fn, blk: fn.Blocks[0], regs: make(map[ssa.Value]Value, 16), retTo: retTo, id: atomic.AddInt64(&frameSeq, 1)}
	if len(args) != len(fn.Params) {
		panic(fmt.Sprintf("call %s: %d args for %d params", fn, len(args), len(fn.Params)))
	}
	for i, p := range fn.Params {
		f.regs[p] = args[i]
	}
	for i, fv := range fn.FreeVars {
		f.regs[fv] = bind[i]
	}
	e.noteFunc(fn)
	return f
}

// run executes st until it forks or ends; it returns the successor states.
func (e *Engine) run(st *State) (succ []*State) {
	defer func() {
		if r := recover(); r != nil {
			switch x := r.(type) {
			case unmodelled:
				where := "?"
				if len(st.threads) > 0 && len(st.thread().frames) > 0 {
					f := st.top()
					where = f.fn.String()
					if f.ip < len(f.blk.Instrs) {
						where += "@" + e.pos(f.blk.Instrs[f.ip].Pos())
					}
				}
				e.inconclusive("UNMODELLED " + x.msg + " in " + where)
				succ = nil
			case pathEnd:
				succ = nil
			default:
				panic(r)
			}
		}
	}()
	for {
		if st.sumPending && st.arrived == 0 {
			st.sumPending = false
			st.sumDone = true
		}
		if st.done || st.sumDone || st.arrived > 0 {
			return nil
		}
		th := st.thread()
		if th.done || len(th.frames) == 0 {
			return e.schedule(st)
		}
		f := th.frames[len(th.frames)-1]
		if f.ip >= len(f.blk.Instrs) {
			panic("fell off block " + f.fn.String())
		}
		instr := f.blk.Instrs[f.ip]
		st.steps++
		atomic.AddInt64(&e.stats.Instrs, 1)
		if st.steps > e.maxSteps {
			e.inconclusive("STEPS limit exceeded in " + st.harness)
			return nil
		}
		out, forked := e.step(st, f, instr)
		if forked {
			var res []*State
			for _, s := range out {
				if s.wantYield != "" && !s.done {
					pt := s.wantYield
					s.wantYield = ""
					res = append(res, e.pickThreadRecorded(s, pt)...)
				} else {
					res = append(res, s)
				}
			}
			return res
		}
		if st.wantYield != "" {
			pt := st.wantYield
			st.wantYield = ""
			return e.pickThreadRecorded(st, pt)
		}
	}
}

func (e *Engine) endPath(st *State) {
	st.done = true
	atomic.AddInt64(&e.stats.Paths, 1)
	// vacuity guard: a completed path must have a satisfiable path condition (a contradiction
	// would mean that a stub or an assumption silently removed behaviour)
	if st.slv != nil && !st.sumDone && !e.inInit && st.pc != nil && st.pc != st.pcChecked {
		if st.check(tTrue) == Unsat {
			e.inconclusive("VACUOUS-PC a path of " + st.harness + " ended with an unsatisfiable path condition")
		}
	}
	if e.verbose {
		var sb strings.Builder
		for _, in := range st.inputs {
			if in.Kind == "choice" || in.Kind == "order" {
				fmt.Fprintf(&sb, "%s=%d ", in.Name, in.Pick)
			}
		}
		e.mu.Lock()
		if e.pathHist == nil {
			e.pathHist = map[string]int{}
		}
		e.pathHist[sb.String()]++
		e.mu.Unlock()
	}
}

// schedule is called when the current thread has finished.
func (e *Engine) schedule(st *State) []*State {
	th := st.thread()
	th.done = true
	if st.cur == 0 {
		// main thread finished: the path ends (remaining threads are abandoned, as in Go)
		e.endPath(st)
		return nil
	}
	return e.pickThreadRecorded(st, "exit:"+th.name)
}

// pickThread forks over every runnable thread.
func (e *Engine) pickThread(st *State, point string) []*State {
	var runnable []int
	for i, t := range st.threads {
		if t.done || len(t.frames) == 0 {
			continue
		}
		if t.waitMu != nil {
			if mv, ok := st.load(*t.waitMu).(MutexV); ok && mv.held != 0 {
				continue
			}
		}
		runnable = append(runnable, i)
	}
	if len(runnable) == 0 {
		// deadlock or everything finished
		alive := false
		for _, t := range st.threads {
			if !t.done && len(t.frames) > 0 {
				alive = true
			}
		}
		if alive {
			e.reportFinding(st, "deadlock", "deadlock", point, nil)
		}
		e.endPath(st)
		return nil
	}
	var out []*State
	for k, i := range runnable {
		s := st
		if k < len(runnable)-1 {
			s = st.clone()
		}
		s.cur = i
		s.sched = append(s.sched, s.threads[i].name+"@"+point)
		out = append(out, s)
	}
	if len(out) > 1 {
		atomic.AddInt64(&e.stats.Forks, int64(len(out)-1))
	}
	return out
}

func (e *Engine) doPanic(st *State, f *Frame, kind string, pos token.Pos) []*State {
	where := e.pos(pos)
	if !pos.IsValid() && f != nil {
		where = f.fn.String()
	}
	if e.panicMode == "finding" {
		e.reportFinding(st, "panic:"+kind, "panic", where, nil)
	} else {
		atomic.AddInt64(&e.stats.PanicCut, 1)
		e.mu.Lock()
		e.oblLabels["panic-cut:"+kind+"@"+where]++
		e.mu.Unlock()
	}
	st.done = true
	atomic.AddInt64(&e.stats.Paths, 1)
	return nil
}

// forkOn splits st on cond; returns (stateTrue, stateFalse), either may be nil when infeasible.
func (e *Engine) forkOn(st *State, cond *Term) (*State, *State) {
	if cond.IsTrue() {
		return st, nil
	}
	if cond.IsFalse() {
		return nil, st
	}
	rt := st.check(cond)
	if rt == Unsat {
		st.assume(Not(cond))
		return nil, st
	}
	rf := st.check(Not(cond))
	if rf == Unsat {
		st.assume(cond)
		return st, nil
	}
	if rt == Unknown || rf == Unknown {
		st.unknowns++
		e.inconclusive("solver unknown at a branch in " + st.harness)
	}
	atomic.AddInt64(&e.stats.Forks, 1)
	e.noteFork(st, 1)
	s2 := st.clone()
	st.assume(cond)
	s2.assume(Not(cond))
	return st, s2
}

func (e *Engine) noteFork(st *State, n int) {
	if !e.verbose || n <= 0 {
		return
	}
	where := "?"
	if len(st.threads) > 0 && len(st.thread().frames) > 0 {
		f := st.top()
		if f.ip < len(f.blk.Instrs) {
			where = f.fn.Name() + "@" + e.pos(f.blk.Instrs[f.ip].Pos())
			if c, ok := f.blk.Instrs[f.ip].(ssa.CallInstruction); ok {
				if callee := c.Common().StaticCallee(); callee != nil {
					where += " -> " + callee.Name()
				}
			}
		}
	}
	e.mu.Lock()
	if e.forkHist == nil {
		e.forkHist = map[string]int{}
	}
	e.forkHist[where] += n
	e.mu.Unlock()
}

func (e *Engine) jump(st *State, f *Frame, to *ssa.BasicBlock) {
	idx := -1
	for i, p := range to.Preds {
		if p == f.blk {
			idx = i
			break
		}
	}
	// back edge => loop unwinding check
	if to.Index <= f.blk.Index {
		if f.loop == nil {
			f.loop = map[*ssa.BasicBlock]int{}
		}
		f.loop[to]++
		if f.loop[to] > e.unwind {
			e.inconclusive(fmt.Sprintf("UNWIND limit %d exceeded at %s block %d", e.unwind, f.fn, to.Index))
			panic(pathEnd{"unwind"})
		}
	}
	var phis []*ssa.Phi
	var vals []Value
	n := 0
	for _, in := range to.Instrs {
		phi, ok := in.(*ssa.Phi)
		if !ok {
			break
		}
		phis = append(phis, phi)
		vals = append(vals, e.eval(st, f, phi.Edges[idx]))
		n++
	}
	for i, phi := range phis {
		f.regs[phi] = vals[i]
	}
	f.prev = f.blk
	f.blk = to
	f.ip = n
	for i := len(st.stops) - 1; i >= 0; i-- {
		sp := st.stops[i]
		if sp.blk == to && sp.frameID == f.id && sp.thread == st.cur {
			st.arrived = i + 1
			break
		}
	}
}

// step executes one instruction. forked=true means the current run loop must stop and
// continue with the returned states.
func (e *Engine) step(st *State, f *Frame, instr ssa.Instruction) ([]*State, bool) {
	switch in := instr.(type) {
	case *ssa.DebugRef:
		f.ip++
	case *ssa.Alloc:
		id := st.newObj(zero(in.Type().(*types.Pointer).Elem()))
		f.regs[in] = Ptr{obj: id}
		f.ip++
	case *ssa.UnOp:
		return e.unop(st, f, in)
	case *ssa.BinOp:
		x, y := e.eval(st, f, in.X), e.eval(st, f, in.Y)
		v, pan := e.binop(st, in.Op, x, y, in.X.Type(), in.Pos())
		if pan != "" {
			return e.doPanic(st, f, pan, in.Pos()), true
		}
		f.regs[in] = v
		f.ip++
	case *ssa.Store:
		p := e.eval(st, f, in.Addr).(Ptr)
		if p.IsNil() {
			return e.doPanic(st, f, "nil-deref-store", in.Pos()), true
		}
		st.recordAccess(e, p, true, in.Pos())
		st.store(p, e.eval(st, f, in.Val))
		f.ip++
	case *ssa.FieldAddr:
		p := e.eval(st, f, in.X).(Ptr)
		if p.IsNil() {
			return e.doPanic(st, f, "nil-deref-field", in.Pos()), true
		}
		f.regs[in] = Ptr{obj: p.obj, path: append(append([]int(nil), p.path...), in.Field)}
		f.ip++
	case *ssa.Field:
		x := e.eval(st, f, in.X)
		sv, ok := x.(*StructV)
		if !ok {
			unm("Field on %T", x)
		}
		f.regs[in] = sv.f[in.Field]
		f.ip++
	case *ssa.IndexAddr:
		return e.indexAddr(st, f, in)
	case *ssa.Index:
		x := e.eval(st, f, in.X)
		idx := e.eval(st, f, in.Index).(*Term)
		if sx, isStr := x.(*Str); isStr {
			return e.strIndex(st, f, in, sx, idx)
		}
		av, ok := x.(*ArrayV)
		if !ok {
			unm("Index on %T", x)
		}
		i, okc := idx.ConstInt()
		if !okc {
			unm("symbolic array index")
		}
		if i < 0 || int(i) >= len(av.e) {
			return e.doPanic(st, f, "index-out-of-range", in.Pos()), true
		}
		f.regs[in] = av.e[i]
		f.ip++
	case *ssa.Lookup:
		return e.lookup(st, f, in)
	case *ssa.Slice:
		return e.sliceOp(st, f, in)
	case *ssa.Phi:
		panic("phi reached in step")
	case *ssa.Jump:
		e.jump(st, f, f.blk.Succs[0])
	case *ssa.If:
		c := e.eval(st, f, in.Cond).(*Term)
		if c.IsConst() {
			if c.bv {
				e.jump(st, f, f.blk.Succs[0])
			} else {
				e.jump(st, f, f.blk.Succs[1])
			}
			return nil, false
		}
		if e.merging && !e.inInit {
			rt := st.check(c)
			var rf Res
			if rt == Unsat {
				st.assume(Not(c))
				e.jump(st, f, f.blk.Succs[1])
				return nil, false
			}
			rf = st.check(Not(c))
			if rf == Unsat {
				st.assume(c)
				e.jump(st, f, f.blk.Succs[0])
				return nil, false
			}
			if rt == Unknown || rf == Unknown {
				st.unknowns++
				e.inconclusive("solver unknown at a branch in " + st.harness)
			}
			atomic.AddInt64(&e.stats.Forks, 1)
			e.noteFork(st, 1)
			return e.mergeIf(st, f, c), true
		}
		a, b := e.forkOn(st, c)
		var out []*State
		if a != nil {
			e.jump(a, a.top(), a.top().blk.Succs[0])
			out = append(out, a)
		}
		if b != nil {
			e.jump(b, b.top(), b.top().blk.Succs[1])
			out = append(out, b)
		}
		if len(out) == 1 && out[0] == st {
			return nil, false
		}
		return out, true
	case *ssa.Return:
		var res Value
		switch len(in.Results) {
		case 0:
		case 1:
			res = e.eval(st, f, in.Results[0])
		default:
			tv := make(TupleV, len(in.Results))
			for i, r := range in.Results {
				tv[i] = e.eval(st, f, r)
			}
			res = tv
		}
		e.doReturn(st, res)
	case *ssa.RunDefers:
		if len(f.defers) > 0 {
			d := f.defers[len(f.defers)-1]
			f.defers = f.defers[:len(f.defers)-1]
			return e.callValue(st, d.fn, d.args, nil, false, in.Pos())
		}
		f.ip++
	case *ssa.Defer:
		fn, args, pan := e.resolveCall(st, f, &in.Call)
		if pan != "" {
			return e.doPanic(st, f, pan, in.Pos()), true
		}
		f.defers = append(f.defers, deferred{fn: fn, args: args})
		f.ip++
	case *ssa.Go:
		fn, args, pan := e.resolveCall(st, f, &in.Call)
		if pan != "" {
			return e.doPanic(st, f, pan, in.Pos()), true
		}
		e.spawn(st, fmt.Sprintf("go%d", len(st.threads)), fn, args)
		f.ip++
	case *ssa.Panic:
		return e.doPanic(st, f, "explicit", in.Pos()), true
	case *ssa.Call:
		fn, args, pan := e.resolveCall(st, f, &in.Call)
		if pan != "" {
			return e.doPanic(st, f, pan, in.Pos()), true
		}
		return e.callValue(st, fn, args, in, true, in.Pos())
	case *ssa.Extract:
		t := e.eval(st, f, in.Tuple).(TupleV)
		f.regs[in] = t[in.Index]
		f.ip++
	case *ssa.MakeInterface:
		f.regs[in] = IfaceV{t: in.X.Type(), v: e.eval(st, f, in.X)}
		f.ip++
	case *ssa.ChangeInterface:
		f.regs[in] = e.eval(st, f, in.X)
		f.ip++
	case *ssa.ChangeType:
		f.regs[in] = e.eval(st, f, in.X)
		f.ip++
	case *ssa.Convert:
		f.regs[in] = e.convert(st, e.eval(st, f, in.X), in.X.Type(), in.Type())
		f.ip++
	case *ssa.TypeAssert:
		return e.typeAssert(st, f, in)
	case *ssa.MakeClosure:
		bind := make([]Value, len(in.Bindings))
		for i, b := range in.Bindings {
			bind[i] = e.eval(st, f, b)
		}
		f.regs[in] = FuncV{fn: in.Fn.(*ssa.Function), bind: bind}
		f.ip++
	case *ssa.MakeMap:
		f.regs[in] = MapV{obj: st.newObj(&MapObj{})}
		f.ip++
	case *ssa.MakeSlice:
		n, ok1 := e.eval(st, f, in.Len).(*Term).ConstInt()
		c, ok2 := e.eval(st, f, in.Cap).(*Term).ConstInt()
		if !ok1 || !ok2 {
			unm("MakeSlice with symbolic size")
		}
		elem := in.Type().Underlying().(*types.Slice).Elem()
		av := &ArrayV{e: make([]Value, c)}
		for i := range av.e {
			av.e[i] = zero(elem)
		}
		f.regs[in] = SliceV{obj: st.newObj(av), len: int(n), cap: int(c)}
		f.ip++
	case *ssa.MakeChan:
		f.regs[in] = ChanV{obj: st.newObj(&ArrayV{})}
		f.ip++
	case *ssa.MapUpdate:
		return e.mapUpdate(st, f, in)
	case *ssa.Range:
		return e.rangeOp(st, f, in)
	case *ssa.Next:
		it := e.eval(st, f, in.Iter).(Ptr)
		iter := st.load(it).(*ArrayV) // [pos, entries...]
		pos := iter.e[0].(*Term).Int64()
		ents := iter.e[1].(TupleV)
		if int(pos) >= len(ents) {
			f.regs[in] = TupleV{tFalse, nil, nil}
		} else {
			en := ents[pos].(TupleV)
			f.regs[in] = TupleV{tTrue, en[0], en[1]}
			st.store(it, &ArrayV{e: []Value{I(pos + 1), ents}})
		}
		f.ip++
	case *ssa.Select:
		// receive cases only; a case is ready when its channel is closed (the only way a channel
		// becomes ready in the single-goroutine model). Go picks any ready case: one successor per
		// ready case. With no ready case a non-blocking select takes its default; a blocking one waits
		// forever -- that path ends (nothing it could still do matters to the properties checked).
		var ready []int
		for i, stt := range in.States {
			if stt.Dir != types.RecvOnly {
				unm("select with a send case")
			}
			ch, _ := e.eval(st, f, stt.Chan).(ChanV)
			if ch.obj != 0 {
				if av, ok := st.heap.objs[ch.obj].(*ArrayV); ok && len(av.e) == 1 {
					ready = append(ready, i)
				}
			}
		}
		result := func(idx int) Value {
			tv := TupleV{I(int64(idx)), tFalse}
			for _, stt := range in.States {
				tv = append(tv, zero(stt.Chan.Type().Underlying().(*types.Chan).Elem()))
			}
			return tv
		}
		if len(ready) == 0 {
			if in.Blocking {
				e.noteAssume("a select or receive that can never proceed ends the path (the goroutine waits forever)")
				e.endPath(st)
				return nil, true
			}
			f.regs[in] = result(-1)
			f.ip++
			return nil, false
		}
		var out []*State
		for k, idx := range ready {
			s2 := st
			if k < len(ready)-1 {
				s2 = st.clone()
			}
			s2.top().regs[in] = result(idx)
			s2.top().ip++
			out = append(out, s2)
		}
		if len(out) == 1 {
			return nil, false
		}
		atomic.AddInt64(&e.stats.Forks, int64(len(out)-1))
		return out, true
	case *ssa.Send:
		unm("channel operation %T", instr)
	case *ssa.SliceToArrayPointer:
		unm("SliceToArrayPointer")
	default:
		unm("instruction %T", instr)
	}
	return nil, false
}

func (e *Engine) doReturn(st *State, res Value) {
	th := st.thread()
	f := th.frames[len(th.frames)-1]
	if len(f.defers) > 0 {
		// a Return with pending defers only happens for functions without RunDefers (none in SSA)
		f.defers = nil
	}
	th.frames = th.frames[:len(th.frames)-1]
	if f.barrier {
		st.sumRes = res
		// the exit of a summarised function may itself be a merge point of an If inside it
		for i := len(st.stops) - 1; i >= 0; i-- {
			sp := st.stops[i]
			if sp.blk == nil && sp.frameID == f.id && sp.thread == st.cur {
				st.arrived = i + 1
				st.sumPending = true
				st.sumCoarse = e.summariseByPattern(f.fn)
				return
			}
		}
		st.sumDone = true
		return
	}
	if len(th.frames) == 0 {
		th.done = true
		return
	}
	caller := th.frames[len(th.frames)-1]
	ci := caller.blk.Instrs[caller.ip]
	if _, isRD := ci.(*ssa.RunDefers); isRD {
		return // stay on RunDefers until the list is empty
	}
	if f.retTo != nil {
		caller.regs[f.retTo] = res
	}
	caller.ip++
	for i := len(st.stops) - 1; i >= 0; i-- {
		sp := st.stops[i]
		if sp.blk == nil && sp.frameID == f.id && sp.thread == st.cur {
			st.arrived = i + 1
			break
		}
	}
}

func (e *Engine) spawn(st *State, name string, fn Value, args []Value) {
	fv := fn.(FuncV)
	if fv.fn == nil {
		unm("go of intrinsic %s", fv.intr)
	}
	if fv.fn.Blocks == nil {
		unm("go of external function %s", fv.fn)
	}
	th := &Thread{name: name}
	th.frames = []*Frame{e.newFrame(fv.fn, args, fv.bind, nil)}
	st.threads = append(st.threads, th)
}

// resolveCall evaluates the callee and arguments of a call.
func (e *Engine) resolveCall(st *State, f *Frame, c *ssa.CallCommon) (Value, []Value, string) {
	args := make([]Value, 0, len(c.Args)+1)
	if c.IsInvoke() {
		recv, ok := e.eval(st, f, c.Value).(IfaceV)
		if !ok {
			unm("invoke on non-interface")
		}
		// intrinsic keyed on the static interface type
		key := "invoke:" + c.Value.Type().String() + "." + c.Method.Name()
		if _, ok := e.invokeI[key]; ok {
			args = append(args, recv)
			for _, a := range c.Args {
				args = append(args, e.eval(st, f, a))
			}
			return FuncV{intr: key}, args, ""
		}
		if recv.t == nil {
			return nil, nil, "nil-interface-call"
		}
		if op, ok := recv.v.(OpaqueV); ok {
			key := "opaque:" + op.kind + "." + c.Method.Name()
			if _, ok := e.intr[key]; ok {
				args = append(args, recv)
				for _, a := range c.Args {
					args = append(args, e.eval(st, f, a))
				}
				return FuncV{intr: key}, args, ""
			}
			unm("method %s on opaque %s", c.Method.Name(), op.kind)
		}
		// a pointer to an engine-managed object (e.g. a modelled redis client)
		if rp, ok := recv.v.(Ptr); ok && !rp.IsNil() && len(rp.path) == 0 {
			if op, ok := st.heap.objs[rp.obj].(OpaqueV); ok {
				key := "opaque:" + op.kind + "." + c.Method.Name()
				if _, ok := e.intr[key]; ok {
					args = append(args, recv)
					for _, a := range c.Args {
						args = append(args, e.eval(st, f, a))
					}
					return FuncV{intr: key}, args, ""
				}
			}
		}
		fn := e.prog.LookupMethod(recv.t, c.Method.Pkg(), c.Method.Name())
		if fn == nil {
			unm("no method %s on %v", c.Method.Name(), recv.t)
		}
		args = append(args, recv.v)
		for _, a := range c.Args {
			args = append(args, e.eval(st, f, a))
		}
		return FuncV{fn: fn}, args, ""
	}
	for _, a := range c.Args {
		args = append(args, e.eval(st, f, a))
	}
	fv := e.eval(st, f, c.Value)
	fn, ok := fv.(FuncV)
	if !ok {
		unm("call of %T", fv)
	}
	if fn.fn == nil && fn.intr == "" {
		return nil, nil, "nil-func-call"
	}
	return fn, args, ""
}

// callValue performs a call; advance says whether the caller's ip moves past the call.
func (e *Engine) callValue(st *State, fnv Value, args []Value, retTo ssa.Value, advance bool, pos token.Pos) ([]*State, bool) {
	fv := fnv.(FuncV)
	var intr Intrinsic
	name := fv.intr
	if fv.fn != nil {
		name = fv.fn.String()
		if i, ok := e.intr[name]; ok {
			intr = i
		} else if i, ok := e.intrByPattern(fv.fn); ok {
			intr = i
		}
	} else {
		if strings.HasPrefix(name, "invoke:") {
			intr = e.invokeI[name]
		} else {
			intr = e.intr[name]
		}
		if intr == nil {
			unm("no intrinsic %s", name)
		}
	}
	if intr != nil {
		e.noteStub(name)
		var sig *types.Signature
		if fv.fn != nil {
			sig = fv.fn.Signature
		}
		if len(fv.extra) > 0 {
			args = append(append([]Value(nil), fv.extra...), args...)
		}
		outs := intr(&CallCtx{e: e, st: st, args: args, fn: fv.fn, name: name, pos: pos, sig: sig})
		var succ []*State
		for _, o := range outs {
			s := o.st
			if s.done {
				continue
			}
			if o.tail != nil {
				tf := o.tail.fn.(FuncV)
				if tf.fn == nil || tf.fn.Blocks == nil {
					unm("tail call to non-SSA function")
				}
				th := s.thread()
				nf := e.newFrame(tf.fn, o.tail.args, tf.bind, retTo)
				th.frames = append(th.frames, nf)
				succ = append(succ, s)
				continue
			}
			fr := s.top()
			if advance {
				if retTo != nil {
					fr.regs[retTo] = o.val
				}
				fr.ip++
			}
			succ = append(succ, s)
		}
		if len(succ) == 1 && succ[0] == st {
			return nil, false
		}
		if len(succ) > 1 {
			atomic.AddInt64(&e.stats.Forks, int64(len(succ)-1))
		}
		return succ, true
	}
	fn := fv.fn
	if fn.Blocks == nil {
		unm("external function %s", name)
	}
	th := st.thread()
	if len(th.frames) > 200 {
		unm("call depth exceeded at %s", name)
	}
	if e.summariseByPattern(fn) && len(args) == 2 {
		// generated validators: run in first-error mode. validate(true) and validate(false) agree
		// on whether an error is returned; only that is used (errors are propagated, not inspected)
		if _, isBool := args[1].(*Term); isBool {
			args = []Value{args[0], tFalse}
			e.noteAssume("generated validators (pb.validate) are executed in first-error mode: only the nil-ness of their result is used")
		}
	}
	if (e.summarise[name] || e.summariseByPattern(fn)) && !e.inInit {
		return e.summariseCall(st, fn, args, fv.bind, retTo, advance)
	}
	nf := e.newFrame(fn, args, fv.bind, retTo)
	th.frames = append(th.frames, nf)
	return nil, false
}

// ---------------------------------------------------------------- unary / binary

func (e *Engine) unop(st *State, f *Frame, in *ssa.UnOp) ([]*State, bool) {
	x := e.eval(st, f, in.X)
	switch in.Op {
	case token.MUL:
		p := x.(Ptr)
		if p.IsNil() {
			return e.doPanic(st, f, "nil-deref-load", in.Pos()), true
		}
		st.recordAccess(e, p, false, in.Pos())
		f.regs[in] = st.load(p)
	case token.NOT:
		f.regs[in] = Not(x.(*Term))
	case token.SUB:
		switch v := x.(type) {
		case *Term:
			f.regs[in] = Neg(v)
		case FloatV:
			f.regs[in] = FloatV{-v.f}
		default:
			unm("neg of %T", x)
		}
	case token.ARROW:
		// only what start-up signalling needs: a receive from a closed channel yields the zero value
		// at once; a receive that would wait for another goroutine is outside the model
		ch, _ := x.(ChanV)
		closed := false
		if ch.obj != 0 {
			if av, ok := st.heap.objs[ch.obj].(*ArrayV); ok && len(av.e) == 1 {
				closed = true
			}
		}
		if !closed {
			// waits forever in the single-goroutine model: the path ends here
			e.noteAssume("a select or receive that can never proceed ends the path (the goroutine waits forever)")
			e.endPath(st)
			return nil, true
		}
		elem := in.X.Type().Underlying().(*types.Chan).Elem()
		if in.CommaOk {
			f.regs[in] = TupleV{zero(elem), tFalse}
		} else {
			f.regs[in] = zero(elem)
		}
	case token.XOR:
		t := x.(*Term)
		if c, ok := t.ConstInt(); ok {
			f.regs[in] = I(^c)
		} else {
			unm("symbolic ^x")
		}
	default:
		unm("unop %v", in.Op)
	}
	f.ip++
	return nil, false
}

func intRange(t types.Type) (lo, hi *big.Int, ok bool) {
	b, isB := t.Underlying().(*types.Basic)
	if !isB {
		return nil, nil, false
	}
	two := big.NewInt(2)
	pow := func(n int64) *big.Int { return new(big.Int).Exp(two, big.NewInt(n), nil) }
	switch b.Kind() {
	case types.Int, types.Int64:
		return new(big.Int).Neg(pow(63)), new(big.Int).Sub(pow(63), big.NewInt(1)), true
	case types.Int32:
		return new(big.Int).Neg(pow(31)), new(big.Int).Sub(pow(31), big.NewInt(1)), true
	case types.Int16:
		return new(big.Int).Neg(pow(15)), new(big.Int).Sub(pow(15), big.NewInt(1)), true
	case types.Int8:
		return new(big.Int).Neg(pow(7)), new(big.Int).Sub(pow(7), big.NewInt(1)), true
	case types.Uint, types.Uint64, types.Uintptr:
		return big.NewInt(0), new(big.Int).Sub(pow(64), big.NewInt(1)), true
	case types.Uint32:
		return big.NewInt(0), new(big.Int).Sub(pow(32), big.NewInt(1)), true
	case types.Uint16:
		return big.NewInt(0), new(big.Int).Sub(pow(16), big.NewInt(1)), true
	case types.Uint8:
		return big.NewInt(0), big.NewInt(255), true
	}
	return nil, nil, false
}

// rangeCheck makes sure v fits type t on this path (no silent wrap-around).
func (e *Engine) rangeCheck(st *State, v *Term, t types.Type, pos token.Pos) *Term {
	lo, hi, ok := intRange(t)
	if !ok {
		return v
	}
	if v.IsConst() {
		if v.iv.Cmp(lo) < 0 || v.iv.Cmp(hi) > 0 {
			// wrap concretely
			m := new(big.Int).Add(new(big.Int).Sub(hi, lo), big.NewInt(1))
			r := new(big.Int).Sub(v.iv, lo)
			r.Mod(r, m)
			r.Add(r, lo)
			return IBig(r)
		}
		return v
	}
	out := Or(Lt(v, IBig(lo)), Gt(v, IBig(hi)))
	atomic.AddInt64(&e.stats.Obligations, 1)
	switch st.check(out) {
	case Unsat:
		atomic.AddInt64(&e.stats.Discharged, 1)
	case Sat:
		e.inconclusive("RANGE integer may wrap at " + e.pos(pos))
	default:
		e.inconclusive("RANGE unknown at " + e.pos(pos))
	}
	return v
}

func (e *Engine) binop(st *State, op token.Token, x, y Value, xt types.Type, pos token.Pos) (Value, string) {
	switch a := x.(type) {
	case *Term:
		b, ok := y.(*Term)
		if !ok {
			unm("binop %v on Term and %T", op, y)
		}
		if a.sort == SBool {
			switch op {
			case token.EQL:
				return Eq(a, b), ""
			case token.NEQ:
				return Ne(a, b), ""
			case token.AND:
				return And(a, b), ""
			case token.OR:
				return Or(a, b), ""
			}
			unm("bool binop %v", op)
		}
		switch op {
		case token.ADD:
			return e.rangeCheck(st, Add(a, b), xt, pos), ""
		case token.SUB:
			return e.rangeCheck(st, Sub(a, b), xt, pos), ""
		case token.MUL:
			if !a.IsConst() && !b.IsConst() {
				unm("symbolic * symbolic")
			}
			return e.rangeCheck(st, Mul(a, b), xt, pos), ""
		case token.QUO, token.REM:
			if bc, ok := b.ConstInt(); ok {
				if bc == 0 {
					return nil, "divide-by-zero"
				}
				if ac, ok := a.ConstInt(); ok {
					if op == token.QUO {
						return I(ac / bc), ""
					}
					return I(ac % bc), ""
				}
				if bc > 0 {
					// truncated division
					q := Ite(Ge(a, I(0)), DivFloor(a, b), Neg(DivFloor(Neg(a), b)))
					if op == token.QUO {
						return q, ""
					}
					return Sub(a, Mul(q, b)), ""
				}
			}
			unm("division with symbolic divisor")
		case token.EQL:
			return Eq(a, b), ""
		case token.NEQ:
			return Ne(a, b), ""
		case token.LSS:
			return Lt(a, b), ""
		case token.LEQ:
			return Le(a, b), ""
		case token.GTR:
			return Gt(a, b), ""
		case token.GEQ:
			return Ge(a, b), ""
		case token.AND, token.OR, token.XOR, token.SHL, token.SHR, token.AND_NOT:
			ac, ok1 := a.ConstInt()
			bc, ok2 := b.ConstInt()
			if ok1 && ok2 {
				switch op {
				case token.AND:
					return I(ac & bc), ""
				case token.OR:
					return I(ac | bc), ""
				case token.XOR:
					return I(ac ^ bc), ""
				case token.SHL:
					return e.rangeCheck(st, IBig(new(big.Int).Lsh(big.NewInt(ac), uint(bc))), xt, pos), ""
				case token.SHR:
					return I(ac >> uint(bc)), ""
				case token.AND_NOT:
					return I(ac &^ bc), ""
				}
			}
			unm("symbolic bit operation %v", op)
		}
	case *Str:
		b := y.(*Str)
		switch op {
		case token.ADD:
			return sConcat(a, b), ""
		case token.EQL:
			return st.sEq(a, b), ""
		case token.NEQ:
			return Not(st.sEq(a, b)), ""
		case token.LSS:
			return st.sLess(a, b), ""
		case token.GTR:
			return st.sLess(b, a), ""
		case token.LEQ:
			return Not(st.sLess(b, a)), ""
		case token.GEQ:
			return Not(st.sLess(a, b)), ""
		}
	case FloatV:
		b := y.(FloatV)
		switch op {
		case token.ADD:
			return FloatV{a.f + b.f}, ""
		case token.SUB:
			return FloatV{a.f - b.f}, ""
		case token.MUL:
			return FloatV{a.f * b.f}, ""
		case token.QUO:
			return FloatV{a.f / b.f}, ""
		case token.EQL:
			return B(a.f == b.f), ""
		case token.NEQ:
			return B(a.f != b.f), ""
		case token.LSS:
			return B(a.f < b.f), ""
		case token.LEQ:
			return B(a.f <= b.f), ""
		case token.GTR:
			return B(a.f > b.f), ""
		case token.GEQ:
			return B(a.f >= b.f), ""
		}
	default:
		switch op {
		case token.EQL:
			return e.valuesEqual(st, x, y), ""
		case token.NEQ:
			return Not(e.valuesEqual(st, x, y)), ""
		}
	}
	unm("binop %v on %T", op, x)
	return nil, ""
}

func isNilValue(v Value) (isNil bool, known bool) {
	switch x := v.(type) {
	case nil:
		return true, true
	case Ptr:
		return x.IsNil(), true
	case SliceV:
		return x.obj == 0, true
	case BytesV:
		return x.isNil, true
	case MapV:
		return x.obj == 0, true
	case IfaceV:
		return x.t == nil, true
	case FuncV:
		return x.fn == nil && x.intr == "", true
	case ChanV:
		return x.obj == 0, true
	}
	return false, false
}

// valuesEqual returns the Bool term for Go's == on two values.
func (e *Engine) valuesEqual(st *State, x, y Value) *Term {
	switch a := x.(type) {
	case *Term:
		if b, ok := y.(*Term); ok {
			return Eq(a, b)
		}
	case *Str:
		if b, ok := y.(*Str); ok {
			return st.sEq(a, b)
		}
	case FloatV:
		if b, ok := y.(FloatV); ok {
			return B(a.f == b.f)
		}
	case TimeV:
		if b, ok := y.(TimeV); ok {
			return Eq(a.ns, b.ns)
		}
	case Ptr:
		if b, ok := y.(Ptr); ok {
			if a.obj != b.obj || len(a.path) != len(b.path) {
				return tFalse
			}
			for i := range a.path {
				if a.path[i] != b.path[i] {
					return tFalse
				}
			}
			return tTrue
		}
	case IfaceV:
		b, ok := y.(IfaceV)
		if !ok {
			break
		}
		if a.t == nil || b.t == nil {
			return B(a.t == nil && b.t == nil)
		}
		if !types.Identical(a.t, b.t) {
			return tFalse
		}
		return e.valuesEqual(st, a.v, b.v)
	case *StructV:
		if b, ok := y.(*StructV); ok && len(a.f) == len(b.f) {
			var cs []*Term
			for i := range a.f {
				cs = append(cs, e.valuesEqual(st, a.f[i], b.f[i]))
			}
			return And(cs...)
		}
	case OpaqueV:
		if b, ok := y.(OpaqueV); ok {
			return B(a.kind == b.kind && a.data == b.data)
		}
	case MutexV:
		return tTrue
	}
	na, ka := isNilValue(x)
	nb, kb := isNilValue(y)
	if ka && kb && (na || nb) {
		return B(na && nb)
	}
	if a, ok := x.(MapV); ok {
		if b, ok := y.(MapV); ok {
			return B(a.obj == b.obj)
		}
	}
	if a, ok := x.(ChanV); ok {
		if b, ok := y.(ChanV); ok {
			return B(a.obj == b.obj)
		}
	}
	unm("== on %T and %T", x, y)
	return nil
}

// ---------------------------------------------------------------- conversions

func (e *Engine) convert(st *State, v Value, from, to types.Type) Value {
	fu, tu := from.Underlying(), to.Underlying()
	fb, fIsB := fu.(*types.Basic)
	tb, tIsB := tu.(*types.Basic)
	switch {
	case fIsB && tIsB:
		switch {
		case fb.Info()&types.IsInteger != 0 && tb.Info()&types.IsInteger != 0:
			t := v.(*Term)
			flo, fhi, _ := intRange(from)
			tlo, thi, _ := intRange(to)
			if flo != nil && tlo != nil && flo.Cmp(tlo) >= 0 && fhi.Cmp(thi) <= 0 {
				return t // widening
			}
			// same width, different signedness: Go wraps; model it exactly (two's complement)
			if flo != nil && tlo != nil && !t.IsConst() {
				fw := new(big.Int).Sub(fhi, flo)
				tw := new(big.Int).Sub(thi, tlo)
				if fw.Cmp(tw) == 0 {
					mod := new(big.Int).Add(tw, big.NewInt(1))
					return Ite(Gt(t, IBig(thi)), Sub(t, IBig(mod)), Ite(Lt(t, IBig(tlo)), Add(t, IBig(mod)), t))
				}
			}
			return e.rangeCheck(st, t, to, token.NoPos)
		case fb.Info()&types.IsInteger != 0 && tb.Info()&types.IsFloat != 0:
			if c, ok := v.(*Term).ConstInt(); ok {
				return FloatV{float64(c)}
			}
			unm("symbolic int->float")
		case fb.Info()&types.IsFloat != 0 && tb.Info()&types.IsInteger != 0:
			return I(int64(v.(FloatV).f))
		case fb.Info()&types.IsFloat != 0 && tb.Info()&types.IsFloat != 0:
			return v
		case fb.Info()&types.IsString != 0 && tb.Info()&types.IsString != 0:
			return v
		case fb.Info()&types.IsInteger != 0 && tb.Info()&types.IsString != 0:
			if c, ok := v.(*Term).ConstInt(); ok {
				return constStr(string(rune(c)))
			}
			unm("string(symbolic rune)")
		}
	case fIsB && fb.Info()&types.IsString != 0:
		// string -> []byte / []rune
		if sl, ok := tu.(*types.Slice); ok {
			if eb, ok := sl.Elem().Underlying().(*types.Basic); ok && eb.Kind() == types.Byte {
				return BytesV{s: v.(*Str)}
			}
		}
	case tIsB && tb.Info()&types.IsString != 0:
		switch b := v.(type) {
		case BytesV:
			return b.s
		case SliceV:
			return st.bytesSliceToStr(b)
		}
	}
	if _, ok := tu.(*types.Pointer); ok {
		if _, ok := fu.(*types.Pointer); ok {
			return v
		}
	}
	unm("convert %v -> %v", from, to)
	return nil
}

// bytesSliceToStr converts an array-backed []byte to a string.
func (st *State) bytesSliceToStr(s SliceV) *Str {
	if s.obj == 0 || s.len == 0 {
		return emptyStr
	}
	av := st.heap.objs[s.obj].(*ArrayV)
	allConst := true
	bs := make([]byte, s.len)
	for i := 0; i < s.len; i++ {
		c, ok := av.e[s.off+i].(*Term).ConstInt()
		if !ok {
			allConst = false
			break
		}
		bs[i] = byte(c)
	}
	if allConst {
		return constStr(string(bs))
	}
	arr := FreshVar("bs_a", SArr)
	var cs []*Term
	for i := 0; i < s.len; i++ {
		cs = append(cs, Eq(Select(arr, I(int64(i))), av.e[s.off+i].(*Term)))
	}
	st.addDef(And(cs...))
	return &Str{p: []Piece{{arr: arr, off: I(0), n: I(int64(s.len)), cap: s.len}}}
}

func (e *Engine) typeAssert(st *State, f *Frame, in *ssa.TypeAssert) ([]*State, bool) {
	x := e.eval(st, f, in.X).(IfaceV)
	ok := false
	var res Value
	if x.t != nil {
		if types.IsInterface(in.AssertedType) {
			if op, isOp := x.v.(OpaqueV); isOp {
				_ = op
				ok = types.Identical(x.t, in.AssertedType) || types.AssignableTo(x.t, in.AssertedType)
			} else {
				ok = types.Implements(x.t, in.AssertedType.Underlying().(*types.Interface))
			}
			res = x
		} else {
			ok = types.Identical(x.t, in.AssertedType)
			res = x.v
		}
	}
	if in.CommaOk {
		if !ok {
			res = zero(in.AssertedType)
		}
		f.regs[in] = TupleV{res, B(ok)}
	} else {
		if !ok {
			return e.doPanic(st, f, "type-assertion", in.Pos()), true
		}
		f.regs[in] = res
	}
	f.ip++
	return nil, false
}

// ---------------------------------------------------------------- indexing, slicing

func (e *Engine) indexAddr(st *State, f *Frame, in *ssa.IndexAddr) ([]*State, bool) {
	x := e.eval(st, f, in.X)
	idx := e.eval(st, f, in.Index).(*Term)
	i, okc := idx.ConstInt()
	switch a := x.(type) {
	case SliceV:
		if !okc {
			unm("symbolic slice index")
		}
		if i < 0 || int(i) >= a.len {
			return e.doPanic(st, f, "index-out-of-range", in.Pos()), true
		}
		f.regs[in] = Ptr{obj: a.obj, path: []int{a.off + int(i)}}
	case Ptr: // pointer to array
		if a.IsNil() {
			return e.doPanic(st, f, "nil-deref-index", in.Pos()), true
		}
		if !okc {
			unm("symbolic array index")
		}
		av := st.load(a).(*ArrayV)
		if i < 0 || int(i) >= len(av.e) {
			return e.doPanic(st, f, "index-out-of-range", in.Pos()), true
		}
		f.regs[in] = Ptr{obj: a.obj, path: append(append([]int(nil), a.path...), int(i))}
	case BytesV:
		unm("IndexAddr on immutable byte string")
	default:
		unm("IndexAddr on %T", x)
	}
	f.ip++
	return nil, false
}

func (e *Engine) sliceOp(st *State, f *Frame, in *ssa.Slice) ([]*State, bool) {
	x := e.eval(st, f, in.X)
	var lo, hi *Term
	if in.Low != nil {
		lo = e.eval(st, f, in.Low).(*Term)
	}
	if in.High != nil {
		hi = e.eval(st, f, in.High).(*Term)
	}
	if in.Max != nil {
		unm("3-index slice")
	}
	switch a := x.(type) {
	case *Str:
		return e.strSlice(st, f, in, a, lo, hi, false)
	case BytesV:
		return e.strSlice(st, f, in, a.s, lo, hi, true)
	case SliceV:
		l, h := 0, a.len
		if lo != nil {
			c, ok := lo.ConstInt()
			if !ok {
				unm("symbolic slice bound")
			}
			l = int(c)
		}
		if hi != nil {
			c, ok := hi.ConstInt()
			if !ok {
				unm("symbolic slice bound")
			}
			h = int(c)
		}
		if l < 0 || h < l || h > a.cap {
			return e.doPanic(st, f, "slice-bounds", in.Pos()), true
		}
		if a.obj == 0 {
			f.regs[in] = SliceV{}
		} else {
			f.regs[in] = SliceV{obj: a.obj, off: a.off + l, len: h - l, cap: a.cap - l}
		}
	case Ptr: // *array
		if a.IsNil() {
			return e.doPanic(st, f, "nil-deref-slice", in.Pos()), true
		}
		if len(a.path) != 0 {
			unm("slice of nested array")
		}
		av := st.load(a).(*ArrayV)
		l, h := 0, len(av.e)
		if lo != nil {
			c, _ := lo.ConstInt()
			l = int(c)
		}
		if hi != nil {
			c, _ := hi.ConstInt()
			h = int(c)
		}
		if l < 0 || h < l || h > len(av.e) {
			return e.doPanic(st, f, "slice-bounds", in.Pos()), true
		}
		f.regs[in] = SliceV{obj: a.obj, off: l, len: h - l, cap: len(av.e) - l}
	default:
		unm("Slice on %T", x)
	}
	f.ip++
	return nil, false
}

func (e *Engine) strSlice(st *State, f *Frame, in *ssa.Slice, s *Str, lo, hi *Term, asBytes bool) ([]*State, bool) {
	n := sLen(s)
	if lo == nil {
		lo = I(0)
	}
	if hi == nil {
		hi = n
	}
	okc := And(Le(I(0), lo), Le(lo, hi), Le(hi, n))
	atomic.AddInt64(&e.stats.Obligations, 1)
	good, bad := e.forkOn(st, okc)
	var out []*State
	if bad != nil {
		e.doPanic(bad, bad.top(), "slice-bounds", in.Pos())
	} else {
		atomic.AddInt64(&e.stats.Discharged, 1)
	}
	if good != nil {
		fr := good.top()
		r := good.sSlice(s, lo, hi)
		if asBytes {
			fr.regs[in] = BytesV{s: r}
		} else {
			fr.regs[in] = r
		}
		fr.ip++
		out = append(out, good)
	}
	if len(out) == 1 && out[0] == st && bad == nil {
		return nil, false
	}
	return out, true
}

// ---------------------------------------------------------------- maps

type lookupOutcome struct {
	cond  *Term
	index int // -1 = absent
}

func (e *Engine) mapCandidates(st *State, m *MapObj, k Value) []lookupOutcome {
	var outs []lookupOutcome
	var none []*Term
	for i, en := range m.entries {
		eq := e.valuesEqual(st, k, en.k)
		if eq.IsTrue() {
			return []lookupOutcome{{cond: tTrue, index: i}}
		}
		if eq.IsFalse() {
			continue
		}
		outs = append(outs, lookupOutcome{cond: eq, index: i})
		none = append(none, Not(eq))
	}
	outs = append(outs, lookupOutcome{cond: And(none...), index: -1})
	return outs
}

// forkMany splits st on mutually exclusive, exhaustive conditions, keeping the feasible ones.
func (e *Engine) forkMany(st *State, conds []*Term) []*State {
	out := make([]*State, len(conds))
	if len(conds) == 1 {
		out[0] = st
		return out
	}
	var feas []int
	for i, c := range conds {
		if c.IsFalse() {
			continue
		}
		if c.IsTrue() {
			feas = []int{i}
			break
		}
		r := st.check(c)
		if r == Unknown {
			st.unknowns++
			e.inconclusive("solver unknown at a choice in " + st.harness)
		}
		if r != Unsat {
			feas = append(feas, i)
		}
	}
	e.noteFork(st, len(feas)-1)
	for k, i := range feas {
		s := st
		if k < len(feas)-1 {
			s = st.clone()
		}
		s.assume(conds[i])
		out[i] = s
	}
	if len(feas) == 0 {
		// pc itself infeasible (should not happen); drop the path
		st.done = true
	}
	return out
}

func (e *Engine) lookup(st *State, f *Frame, in *ssa.Lookup) ([]*State, bool) {
	x := e.eval(st, f, in.X)
	k := e.eval(st, f, in.Index)
	switch m := x.(type) {
	case *Str:
		return e.strIndex(st, f, in, m, k.(*Term))
	case MapV:
		vt := in.X.Type().Underlying().(*types.Map).Elem()
		if m.obj == 0 {
			if in.CommaOk {
				f.regs[in] = TupleV{zero(vt), tFalse}
			} else {
				f.regs[in] = zero(vt)
			}
			f.ip++
			return nil, false
		}
		mo := st.heap.objs[m.obj].(*MapObj)
		st.recordAccess(e, Ptr{obj: m.obj}, false, in.Pos())
		cands := e.mapCandidates(st, mo, k)
		conds := make([]*Term, len(cands))
		for i, c := range cands {
			conds[i] = c.cond
		}
		sts := e.forkMany(st, conds)
		var out []*State
		for i, s := range sts {
			if s == nil {
				continue
			}
			fr := s.top()
			var v Value
			found := cands[i].index >= 0
			if found {
				v = s.heap.objs[m.obj].(*MapObj).entries[cands[i].index].v
			} else {
				v = zero(vt)
			}
			if in.CommaOk {
				fr.regs[in] = TupleV{v, B(found)}
			} else {
				fr.regs[in] = v
			}
			fr.ip++
			out = append(out, s)
		}
		if len(out) == 1 && out[0] == st {
			return nil, false
		}
		return out, true
	}
	unm("Lookup on %T", x)
	return nil, false
}

func (e *Engine) strIndex(st *State, f *Frame, in ssa.Value, s *Str, idx *Term) ([]*State, bool) {
	n := sLen(s)
	okc := And(Le(I(0), idx), Lt(idx, n))
	atomic.AddInt64(&e.stats.Obligations, 1)
	good, bad := e.forkOn(st, okc)
	var out []*State
	if bad != nil {
		e.doPanic(bad, bad.top(), "index-out-of-range", in.Pos())
	} else {
		atomic.AddInt64(&e.stats.Discharged, 1)
	}
	if good != nil {
		fr := good.top()
		if c, ok := s.Const(); ok {
			if i, ok := idx.ConstInt(); ok {
				fr.regs[in] = I(int64(c[i]))
			} else {
				// constant table lookup with symbolic index: piecewise linear over runs of
				// consecutive byte values (e.g. "a..zA..Z0..9" has three runs)
				type run struct{ start, end int } // [start,end)
				var runs []run
				for j := 0; j < len(c); {
					k := j + 1
					for k < len(c) && c[k] == c[k-1]+1 {
						k++
					}
					runs = append(runs, run{j, k})
					j = k
				}
				last := runs[len(runs)-1]
				v := Add(idx, I(int64(c[last.start])-int64(last.start)))
				for r := len(runs) - 2; r >= 0; r-- {
					rr := runs[r]
					v = Ite(Lt(idx, I(int64(rr.end))), Add(idx, I(int64(c[rr.start])-int64(rr.start))), v)
				}
				fr.regs[in] = v
			}
		} else {
			fl := good.flat(s)
			fr.regs[in] = pieceByte(fl, idx)
		}
		fr.ip++
		out = append(out, good)
	}
	if len(out) == 1 && out[0] == st && bad == nil {
		return nil, false
	}
	return out, true
}

func (e *Engine) mapUpdate(st *State, f *Frame, in *ssa.MapUpdate) ([]*State, bool) {
	m := e.eval(st, f, in.Map).(MapV)
	if m.obj == 0 {
		return e.doPanic(st, f, "nil-map-write", in.Pos()), true
	}
	k := e.eval(st, f, in.Key)
	v := e.eval(st, f, in.Value)
	st.recordAccess(e, Ptr{obj: m.obj}, true, in.Pos())
	outs := e.mapSet(st, m.obj, k, v)
	for _, s := range outs {
		s.top().ip++
	}
	if len(outs) == 1 && outs[0] == st {
		return nil, false
	}
	return outs, true
}

func (e *Engine) mapSet(st *State, obj int, k, v Value) []*State {
	mo := st.heap.objs[obj].(*MapObj)
	cands := e.mapCandidates(st, mo, k)
	conds := make([]*Term, len(cands))
	for i, c := range cands {
		conds[i] = c.cond
	}
	sts := e.forkMany(st, conds)
	var out []*State
	for i, s := range sts {
		if s == nil {
			continue
		}
		old := s.heap.objs[obj].(*MapObj)
		n := &MapObj{entries: append([]MapEntry(nil), old.entries...)}
		if cands[i].index >= 0 {
			n.entries[cands[i].index] = MapEntry{k: old.entries[cands[i].index].k, v: v}
		} else {
			n.entries = append(n.entries, MapEntry{k: k, v: v})
		}
		s.heap.objs[obj] = n
		out = append(out, s)
	}
	return out
}

func (e *Engine) mapDelete(st *State, obj int, k Value) []*State {
	mo := st.heap.objs[obj].(*MapObj)
	cands := e.mapCandidates(st, mo, k)
	conds := make([]*Term, len(cands))
	for i, c := range cands {
		conds[i] = c.cond
	}
	sts := e.forkMany(st, conds)
	var out []*State
	for i, s := range sts {
		if s == nil {
			continue
		}
		if cands[i].index >= 0 {
			old := s.heap.objs[obj].(*MapObj)
			n := &MapObj{}
			for j, en := range old.entries {
				if j != cands[i].index {
					n.entries = append(n.entries, en)
				}
			}
			s.heap.objs[obj] = n
		}
		out = append(out, s)
	}
	return out
}

func permutations(n int) [][]int {
	if n == 0 {
		return [][]int{{}}
	}
	var out [][]int
	var rec func(cur []int, used []bool)
	rec = func(cur []int, used []bool) {
		if len(cur) == n {
			out = append(out, append([]int(nil), cur...))
			return
		}
		for i := 0; i < n; i++ {
			if !used[i] {
				used[i] = true
				rec(append(cur, i), used)
				used[i] = false
			}
		}
	}
	rec(nil, make([]bool, n))
	return out
}

func (e *Engine) rangeOp(st *State, f *Frame, in *ssa.Range) ([]*State, bool) {
	x := e.eval(st, f, in.X)
	m, ok := x.(MapV)
	if !ok {
		unm("range over %T", x)
	}
	var ents []MapEntry
	if m.obj != 0 {
		ents = st.heap.objs[m.obj].(*MapObj).entries
		st.recordAccess(e, Ptr{obj: m.obj}, false, in.Pos())
	}
	mk := func(s *State, order []int) {
		tv := make(TupleV, len(order))
		for i, j := range order {
			tv[i] = TupleV{ents[j].k, ents[j].v}
		}
		id := s.newObj(&ArrayV{e: []Value{I(0), tv}})
		fr := s.top()
		fr.regs[in] = Ptr{obj: id}
		fr.ip++
	}
	maxPerm := e.bound("map-iteration-orders-upto", 3)
	if len(ents) <= 1 || len(ents) > maxPerm {
		if len(ents) > maxPerm {
			e.noteAssume(fmt.Sprintf("maps with more than %d entries are iterated in insertion order only", maxPerm))
		}
		order := make([]int, len(ents))
		for i := range order {
			order[i] = i
		}
		mk(st, order)
		return nil, false
	}
	perms := permutations(len(ents))
	var out []*State
	for i, p := range perms {
		s := st
		if i < len(perms)-1 {
			s = st.clone()
		}
		mk(s, p)
		s.inputs = append(s.inputs, InputRec{Name: "map-order@" + e.pos(in.Pos()), Kind: "order", Pick: i})
		out = append(out, s)
	}
	atomic.AddInt64(&e.stats.Forks, int64(len(out)-1))
	return out, true
}

// recordAccess logs a memory access for the lockset audit (C16).
func (st *State) recordAccess(e *Engine, p Ptr, write bool, pos token.Pos) {
	if !st.audit {
		return
	}
	e.recordAccess(st, p, write, pos)
}
