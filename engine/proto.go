package main

// Generic models of proto.Clone / proto.Merge over the Go struct representation of generated
// messages (proto3 semantics): scalars are overwritten when the source is non-zero, messages
// are merged recursively (cloned when the destination is unset), repeated fields are appended,
// oneofs are replaced. The three bookkeeping fields of every message are ignored.

import (
	"go/types"
	"net"
	"net/url"
	"strconv"
	"strings"
)

func isProtoInternalField(name string) bool {
	return name == "state" || name == "sizeCache" || name == "unknownFields"
}

// deepClone copies a value graph (pointers, slices, maps, interfaces with pointer payloads).
func (e *Engine) deepClone(st *State, v Value, t types.Type, seen map[int]int) Value {
	switch x := v.(type) {
	case Ptr:
		if x.IsNil() {
			return x
		}
		pt, ok := t.Underlying().(*types.Pointer)
		if !ok || len(x.path) != 0 {
			return x
		}
		if n, ok := seen[x.obj]; ok {
			return Ptr{obj: n}
		}
		id := st.newObj(nil)
		seen[x.obj] = id
		st.heap.objs[id] = e.deepClone(st, st.heap.objs[x.obj], pt.Elem(), seen)
		return Ptr{obj: id}
	case *StructV:
		stt, ok := t.Underlying().(*types.Struct)
		if !ok {
			return x
		}
		n := &StructV{f: make([]Value, len(x.f))}
		for i := range x.f {
			if isProtoInternalField(stt.Field(i).Name()) {
				n.f[i] = zero(stt.Field(i).Type())
				continue
			}
			n.f[i] = e.deepClone(st, x.f[i], stt.Field(i).Type(), seen)
		}
		return n
	case SliceV:
		if x.obj == 0 {
			return x
		}
		sl, ok := t.Underlying().(*types.Slice)
		if !ok {
			return x
		}
		av := st.heap.objs[x.obj].(*ArrayV)
		nv := &ArrayV{e: make([]Value, x.len)}
		for i := 0; i < x.len; i++ {
			nv.e[i] = e.deepClone(st, av.e[x.off+i], sl.Elem(), seen)
		}
		return SliceV{obj: st.newObj(nv), len: x.len, cap: x.len}
	case IfaceV:
		if x.t == nil {
			return x
		}
		return IfaceV{t: x.t, v: e.deepClone(st, x.v, x.t, seen)}
	case MapV:
		if x.obj == 0 {
			return x
		}
		mt, ok := t.Underlying().(*types.Map)
		if !ok {
			return x
		}
		mo := st.heap.objs[x.obj].(*MapObj)
		n := &MapObj{}
		for _, en := range mo.entries {
			n.entries = append(n.entries, MapEntry{k: en.k, v: e.deepClone(st, en.v, mt.Elem(), seen)})
		}
		return MapV{obj: st.newObj(n)}
	}
	return v
}

// protoMergeStruct merges src into dst (both struct values of message type t) and returns the
// new dst value.
func (e *Engine) protoMergeStruct(st *State, dst, src *StructV, t types.Type) *StructV {
	stt := t.Underlying().(*types.Struct)
	n := &StructV{f: append([]Value(nil), dst.f...)}
	for i := 0; i < stt.NumFields(); i++ {
		if isProtoInternalField(stt.Field(i).Name()) {
			continue
		}
		ft := stt.Field(i).Type()
		n.f[i] = e.protoMergeValue(st, dst.f[i], src.f[i], ft)
	}
	return n
}

func (e *Engine) protoMergeValue(st *State, d, s Value, t types.Type) Value {
	switch sv := s.(type) {
	case *Term:
		dv := d.(*Term)
		if sv.sort == SBool {
			return Or(dv, sv)
		}
		return Ite(Eq(sv, I(0)), dv, sv)
	case *Str:
		dv := d.(*Str)
		if c, ok := sv.Const(); ok {
			if c == "" {
				return dv
			}
			return sv
		}
		// strings with an identity the engine tracks (harness-built URLs) must keep it: the merge
		// outcome is then decided by a pending fork instead of an if-then-else string
		_, sReg := st.ghost[strKey("url", sv)]
		_, dReg := st.ghost[strKey("url", dv)]
		if sReg || dReg {
			st.pendingStrChoice = append(st.pendingStrChoice, strChoice{cond: Gt(sLen(sv), I(0)), a: sv, b: dv})
			return strChoiceMarker{idx: len(st.pendingStrChoice) - 1}
		}
		return st.sIte(Gt(sLen(sv), I(0)), sv, dv)
	case FloatV:
		if sv.f != 0 {
			return sv
		}
		return d
	case Ptr:
		if sv.IsNil() {
			return d
		}
		dp := d.(Ptr)
		pt := t.Underlying().(*types.Pointer)
		if dp.IsNil() {
			return e.deepClone(st, sv, t, map[int]int{})
		}
		merged := e.protoMergeStruct(st, st.load(dp).(*StructV), st.load(sv).(*StructV), pt.Elem())
		// proto.Merge mutates the destination message in place
		st.store(dp, merged)
		return dp
	case SliceV:
		if sv.obj == 0 || sv.len == 0 {
			return d
		}
		cl := e.deepClone(st, sv, t, map[int]int{}).(SliceV)
		return e.builtinAppend(st, d, cl)
	case BytesV:
		if sv.isNil {
			return d
		}
		return sv
	case IfaceV: // oneof wrapper
		if sv.t == nil {
			return d
		}
		dv := d.(IfaceV)
		if dv.t != nil && types.Identical(dv.t, sv.t) {
			// same case: a message-typed member is merged recursively; a scalar member of a populated
			// source oneof REPLACES the destination's (even when it is the zero value)
			dp, sp := dv.v.(Ptr), sv.v.(Ptr)
			if !dp.IsNil() && !sp.IsNil() {
				pt := sv.t.Underlying().(*types.Pointer)
				ws := pt.Elem().Underlying().(*types.Struct)
				if ws.NumFields() == 1 {
					if _, isMsg := ws.Field(0).Type().Underlying().(*types.Pointer); isMsg {
						nd := e.deepClone(st, dp, sv.t, map[int]int{}).(Ptr)
						st.store(nd, e.protoMergeStruct(st, st.load(nd).(*StructV), st.load(sp).(*StructV), pt.Elem()))
						return IfaceV{t: sv.t, v: nd}
					}
				}
			}
		}
		return e.deepClone(st, sv, sv.t, map[int]int{})
	case MapV:
		if sv.obj == 0 {
			return d
		}
		unm("proto.Merge of map fields")
	}
	return d
}

func (e *Engine) registerProto() {
	r := func(name string, f Intrinsic) { e.intr[name] = f }
	r("google.golang.org/protobuf/proto.Clone", func(c *CallCtx) []Outcome {
		m := c.args[0].(IfaceV)
		if m.t == nil {
			return c.ret(m)
		}
		return c.ret(IfaceV{t: m.t, v: c.e.deepClone(c.st, m.v, m.t, map[int]int{})})
	})
	r("google.golang.org/protobuf/proto.Merge", func(c *CallCtx) []Outcome {
		dst, src := c.args[0].(IfaceV), c.args[1].(IfaceV)
		if dst.t == nil || src.t == nil {
			return c.panicOut("proto.Merge of nil message")
		}
		dp, sp := dst.v.(Ptr), src.v.(Ptr)
		if sp.IsNil() {
			return c.ret(nil)
		}
		if dp.IsNil() {
			return c.panicOut("proto.Merge into nil message")
		}
		if !types.Identical(dst.t, src.t) {
			return c.panicOut("proto.Merge of different message types")
		}
		pt := dst.t.Underlying().(*types.Pointer)
		c.st.pendingStrChoice = nil
		c.st.store(dp, c.e.protoMergeStruct(c.st, c.st.load(dp).(*StructV), c.st.load(sp).(*StructV), pt.Elem()))
		// resolve identity-carrying string choices by forking
		work := []*State{c.st}
		for k := range c.st.pendingStrChoice {
			var next []*State
			for _, s2 := range work {
				ch := s2.pendingStrChoice[k]
				a, b := c.e.forkOn(s2, ch.cond)
				if a != nil {
					replaceMarker(a, k, ch.a)
					next = append(next, a)
				}
				if b != nil {
					replaceMarker(b, k, ch.b)
					next = append(next, b)
				}
			}
			work = next
		}
		var outs []Outcome
		for _, s2 := range work {
			s2.pendingStrChoice = nil
			outs = append(outs, Outcome{st: s2})
		}
		return outs
	})
	// staged unmarshalling: the harness hands over the message that protojson.Unmarshal "decodes"
	r(vnPkg+".StageProto", func(c *CallCtx) []Outcome {
		c.st.ghost["stagedproto"] = c.args[0]
		return c.ret(nil)
	})
	r("os.ReadFile", func(c *CallCtx) []Outcome {
		if path, ok := c.args[0].(*Str).Const(); ok {
			if v, ok := c.st.ghost["file:"+path]; ok {
				tv := v.(TupleV)
				content, readable := tv[0].(*Str), tv[1].(*Term)
				a, b := c.e.forkOn(c.st, readable)
				var outs []Outcome
				if a != nil {
					outs = append(outs, Outcome{st: a, val: TupleV{BytesV{s: content}, IfaceV{}}})
				}
				if b != nil {
					outs = append(outs, Outcome{st: b, val: TupleV{BytesV{s: emptyStr, isNil: true}, c.e.newError(b, "read file")}})
				}
				return outs
			}
		}
		if _, ok := c.st.ghost["stagedproto"]; ok {
			return c.ret(TupleV{BytesV{s: constStr("<staged>")}, IfaceV{}})
		}
		unm("os.ReadFile without a staged document")
		return nil
	})
	r("google.golang.org/protobuf/encoding/protojson.Unmarshal", func(c *CallCtx) []Outcome {
		v, ok := c.st.ghost["stagedproto"]
		if !ok {
			unm("protojson.Unmarshal without a staged message")
		}
		src := v.(IfaceV)
		dst := c.args[1].(IfaceV)
		if !types.Identical(src.t, dst.t) {
			unm("staged message type %v differs from target %v", src.t, dst.t)
		}
		cl := c.e.deepClone(c.st, src.v, src.t, map[int]int{}).(Ptr)
		c.st.store(dst.v.(Ptr), c.st.load(cl))
		return c.ret(IfaceV{})
	})
	r("k8s.io/apimachinery/pkg/api/errors.IsNotFound", func(c *CallCtx) []Outcome {
		ev := c.args[0].(IfaceV)
		if ev.t == nil {
			return c.ret(tFalse)
		}
		pt, ok := ev.t.Underlying().(*types.Pointer)
		if !ok || !isNamed(pt.Elem(), "k8s.io/apimachinery/pkg/api/errors", "StatusError") {
			return c.ret(tFalse)
		}
		p := ev.v.(Ptr)
		if p.IsNil() {
			return c.ret(tFalse)
		}
		sv := c.st.load(p).(*StructV)
		stt := pt.Elem()
		status := sv.f[fieldIndex(stt, "ErrStatus")].(*StructV)
		st2 := stt.Underlying().(*types.Struct).Field(fieldIndex(stt, "ErrStatus")).Type()
		reason := status.f[fieldIndex(st2, "Reason")].(*Str)
		return c.ret(c.st.sEq(reason, constStr("NotFound")))
	})
	r("unicode/utf8.RuneCountInString", func(c *CallCtx) []Outcome {
		s := c.args[0].(*Str)
		if cs, ok := s.Const(); ok {
			n := 0
			for range cs {
				n++
			}
			return c.ret(I(int64(n)))
		}
		// between ceil(len/4) and len; zero exactly for the empty string
		n := FreshVar("runes", SInt)
		l := sLen(s)
		c.st.addDef(And(Le(n, l), Le(l, Mul(I(4), n)), Le(I(0), n)))
		return c.ret(n)
	})
	r("net.ParseIP", func(c *CallCtx) []Outcome {
		s := c.args[0].(*Str)
		if cs, isC := s.Const(); isC {
			if net.ParseIP(cs) != nil {
				return c.ret(BytesV{s: constStr("\x7f\x00\x00\x01")})
			}
			return c.ret(BytesV{s: emptyStr, isNil: true})
		}
		ok, _ := c.st.ufStrings("isIP", s, emptyStr)
		a, b := c.e.forkOn(c.st, ok)
		var outs []Outcome
		if a != nil {
			outs = append(outs, Outcome{st: a, val: BytesV{s: constStr("\x7f\x00\x00\x01")}})
		}
		if b != nil {
			outs = append(outs, Outcome{st: b, val: BytesV{s: emptyStr, isNil: true}})
		}
		return outs
	})
	r("github.com/redis/go-redis/v9.NewClient", func(c *CallCtx) []Outcome {
		return c.ret(Ptr{obj: c.st.newObj(OpaqueV{kind: "redisclient", data: c.args[0]})})
	})
	r("opaque:redisclient.Ping", func(c *CallCtx) []Outcome {
		t := c.e.namedType("github.com/redis/go-redis/v9", "StatusCmd")
		return c.ret(c.e.newStruct(c.st, t, nil))
	})
	r("(*github.com/redis/go-redis/v9.Client).Options", func(c *CallCtx) []Outcome {
		p := c.args[0].(Ptr)
		if op, ok := c.st.heap.objs[p.obj].(OpaqueV); ok && op.kind == "redisclient" {
			return c.ret(op.data.(Value))
		}
		unm("Client.Options on a real client")
		return nil
	})
	r("github.com/redis/go-redis/v9.ParseURL", func(c *CallCtx) []Outcome {
		s := c.args[0].(*Str)
		if cs, isC := s.Const(); isC {
			// exact for constants: redis[s]://[user[:password]@]host[:port][/db]
			u, err := url.Parse(cs)
			if err != nil || (u.Scheme != "redis" && u.Scheme != "rediss") {
				return c.ret(TupleV{Ptr{}, c.e.newError(c.st, "redis url")})
			}
			host, port := u.Hostname(), u.Port()
			if host == "" {
				host = "localhost"
			}
			if port == "" {
				port = "6379"
			}
			db := int64(0)
			if p := strings.Trim(u.Path, "/"); p != "" {
				n, perr := strconv.Atoi(p)
				if perr != nil {
					return c.ret(TupleV{Ptr{}, c.e.newError(c.st, "redis url db")})
				}
				db = int64(n)
			}
			pw, _ := u.User.Password()
			ot := c.e.namedType("github.com/redis/go-redis/v9", "Options")
			opts := c.e.newStruct(c.st, ot, map[string]Value{"Addr": constStr(host + ":" + port), "DB": I(db), "Username": constStr(u.User.Username()), "Password": constStr(pw), "Network": constStr("tcp")})
			return c.ret(TupleV{opts, IfaceV{}})
		}
		_, bad := c.st.ufStrings("redisURL", s, emptyStr)
		// known-good shapes parse (keeps the uninterpreted predicate in line with go-redis on the
		// values the harnesses use)
		c.st.addDef(Implies(c.st.sEq(s, constStr("redis://r")), Not(bad)))
		a, b := c.e.forkOn(c.st, bad)
		var outs []Outcome
		if a != nil {
			outs = append(outs, Outcome{st: a, val: TupleV{Ptr{}, c.e.newError(a, "redis url")}})
		}
		if b != nil {
			outs = append(outs, Outcome{st: b, val: TupleV{Ptr{obj: b.newObj(OpaqueV{kind: "redisopts", data: s})}, IfaceV{}}})
		}
		return outs
	})
}

type strChoice struct {
	cond *Term
	a, b *Str
}

type strChoiceMarker struct{ idx int }

// replaceMarker substitutes the chosen string for marker k everywhere in the heap.
func replaceMarker(st *State, k int, s *Str) {
	var sub func(v Value) (Value, bool)
	sub = func(v Value) (Value, bool) {
		switch x := v.(type) {
		case strChoiceMarker:
			if x.idx == k {
				return s, true
			}
		case *StructV:
			changed := false
			n := &StructV{f: make([]Value, len(x.f))}
			for i, f := range x.f {
				nv, ch := sub(f)
				n.f[i] = nv
				changed = changed || ch
			}
			if changed {
				return n, true
			}
		case *ArrayV:
			changed := false
			n := &ArrayV{e: make([]Value, len(x.e))}
			for i, f := range x.e {
				nv, ch := sub(f)
				n.e[i] = nv
				changed = changed || ch
			}
			if changed {
				return n, true
			}
		}
		return v, false
	}
	for id, v := range st.heap.objs {
		if nv, ch := sub(v); ch {
			st.heap.objs[id] = nv
		}
	}
}
