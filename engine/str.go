package main

// Bounded byte-array strings. A Go string is a rope of pieces: constants and views
// (arr[off .. off+n)) onto SMT arrays of bytes with a concrete capacity.

import (
	"fmt"
	"strings"
)

type alphabet [256]bool

type Piece struct {
	c     string // constant piece when arr == nil
	arr   *Term
	off   *Term
	n     *Term
	cap   int
	alpha *alphabet // bytes a view may contain (nil: any); set by vn.StringIn, kept by slicing
	taint uint32    // secret classes whose bytes this piece may carry (C14)
}

func sTaint(s *Str) uint32 {
	var t uint32
	for _, p := range s.p {
		t |= p.taint
	}
	return t
}

func sWithTaint(s *Str, t uint32) *Str {
	if t == 0 || len(s.p) == 0 {
		return s
	}
	out := make([]Piece, len(s.p))
	for i, p := range s.p {
		p.taint |= t
		out[i] = p
	}
	return &Str{p: out}
}

func (p Piece) mayContain(b byte) bool {
	if p.isConst() {
		return strings.IndexByte(p.c, b) >= 0
	}
	return p.alpha == nil || p.alpha[b]
}

func isSpaceByte(b byte) bool { return b == ' ' || (b >= 9 && b <= 13) }

func (p Piece) mayContainSpace() bool {
	if p.isConst() {
		for i := 0; i < len(p.c); i++ {
			if isSpaceByte(p.c[i]) {
				return true
			}
		}
		return false
	}
	if p.alpha == nil {
		return true
	}
	for _, b := range []byte{' ', 9, 10, 11, 12, 13} {
		if p.alpha[b] {
			return true
		}
	}
	return false
}

// offsets returns the start offset of every piece (and the total length as last element),
// built by one left fold so that equal positions are identical (hash-consed) terms.
func (s *Str) offsets() []*Term {
	offs := make([]*Term, len(s.p)+1)
	o := I(0)
	for i, p := range s.p {
		offs[i] = o
		if p.isConst() {
			o = Add(o, I(int64(len(p.c))))
		} else {
			o = Add(o, p.n)
		}
	}
	offs[len(s.p)] = o
	return offs
}

// splitConst decomposes t into base + c.
func splitConst(t *Term) (*Term, int64) {
	if c, ok := t.ConstInt(); ok {
		return nil, c
	}
	if t.op == "+" && len(t.args) == 2 {
		if c, ok := t.args[1].ConstInt(); ok {
			return t.args[0], c
		}
	}
	return t, 0
}

// locate maps a position term to a cut (i,k): position = offset of piece i + k, with k > 0 only
// inside constant pieces (normalised so that k < len of that piece). ok=false when the position
// is not visibly on a piece boundary or inside a constant piece.
func (s *Str) locate(offs []*Term, pos *Term) (int, int, bool) {
	pb, pc := splitConst(pos)
	for i := 0; i <= len(s.p); i++ {
		ob, oc := splitConst(offs[i])
		if ob != pb {
			continue
		}
		k := pc - oc
		if k == 0 {
			return i, 0, true
		}
		if k > 0 && i < len(s.p) && s.p[i].isConst() && int(k) <= len(s.p[i].c) {
			if int(k) == len(s.p[i].c) {
				return i + 1, 0, true
			}
			return i, int(k), true
		}
	}
	return 0, 0, false
}

// subRope returns the rope between two cuts (i0,k0) <= (i1,k1).
func (s *Str) subRope(i0, k0, i1, k1 int) *Str {
	var out []Piece
	for i := i0; i <= i1 && i < len(s.p); i++ {
		if i == i1 && k1 == 0 {
			break
		}
		p := s.p[i]
		if p.isConst() {
			lo, hi := 0, len(p.c)
			if i == i0 {
				lo = k0
			}
			if i == i1 {
				hi = k1
			}
			if lo < hi {
				out = append(out, Piece{c: p.c[lo:hi], taint: p.taint})
			}
		} else {
			out = append(out, p)
		}
	}
	if len(out) == 0 {
		return emptyStr
	}
	return &Str{p: out}
}

func (p Piece) isConst() bool { return p.arr == nil }

type Str struct{ p []Piece }

var emptyStr = &Str{}

func constStr(s string) *Str {
	if s == "" {
		return emptyStr
	}
	return &Str{p: []Piece{{c: s}}}
}

func (s *Str) Const() (string, bool) {
	var sb strings.Builder
	for _, p := range s.p {
		if !p.isConst() {
			return "", false
		}
		sb.WriteString(p.c)
	}
	return sb.String(), true
}

func (s *Str) String() string {
	var parts []string
	for _, p := range s.p {
		if p.isConst() {
			parts = append(parts, fmt.Sprintf("%q", p.c))
		} else {
			parts = append(parts, fmt.Sprintf("<%s+%s:%s/%d>", p.arr, p.off, p.n, p.cap))
		}
	}
	if len(parts) == 0 {
		return `""`
	}
	return strings.Join(parts, "+")
}

func sLen(s *Str) *Term {
	l := I(0)
	for _, p := range s.p {
		if p.isConst() {
			l = Add(l, I(int64(len(p.c))))
		} else {
			l = Add(l, p.n)
		}
	}
	return l
}

func sCap(s *Str) int {
	c := 0
	for _, p := range s.p {
		if p.isConst() {
			c += len(p.c)
		} else {
			c += p.cap
		}
	}
	return c
}

func sConcat(a, b *Str) *Str {
	if len(a.p) == 0 {
		return b
	}
	if len(b.p) == 0 {
		return a
	}
	out := append([]Piece(nil), a.p...)
	for _, p := range b.p {
		if p.isConst() && len(out) > 0 && out[len(out)-1].isConst() && out[len(out)-1].taint == p.taint {
			out[len(out)-1] = Piece{c: out[len(out)-1].c + p.c, taint: p.taint}
		} else if !p.isConst() || p.c != "" {
			out = append(out, p)
		}
	}
	return &Str{p: out}
}

// newSymStr creates an arbitrary string of at most cap bytes.
func (st *State) newSymStr(name string, cap int) *Str {
	arr := FreshVar(name+"_a", SArr)
	n := FreshVar(name+"_n", SInt)
	cs := []*Term{Le(I(0), n), Le(n, I(int64(cap)))}
	for i := 0; i < cap; i++ {
		b := Select(arr, I(int64(i)))
		cs = append(cs, Le(I(0), b), Le(b, I(255)))
	}
	st.addDef(And(cs...))
	return &Str{p: []Piece{{arr: arr, off: I(0), n: n, cap: cap}}}
}

// flat returns a single-view representation of s (adding definitional constraints).
func (st *State) flat(s *Str) Piece {
	if len(s.p) == 1 && !s.p[0].isConst() {
		return s.p[0]
	}
	if f, ok := st.flatCache[s]; ok {
		return f
	}
	arr := FreshVar("flat_a", SArr)
	var cs []*Term
	off := I(0)
	cap := 0
	for _, p := range s.p {
		if p.isConst() {
			for i := 0; i < len(p.c); i++ {
				cs = append(cs, Eq(Select(arr, Add(off, I(int64(i)))), I(int64(p.c[i]))))
			}
			off = Add(off, I(int64(len(p.c))))
			cap += len(p.c)
		} else {
			for i := 0; i < p.cap; i++ {
				ii := I(int64(i))
				cs = append(cs, Implies(Lt(ii, p.n), Eq(Select(arr, Add(off, ii)), Select(p.arr, Add(p.off, ii)))))
			}
			off = Add(off, p.n)
			cap += p.cap
		}
	}
	st.addDef(And(cs...))
	f := Piece{arr: arr, off: I(0), n: off, cap: cap, alpha: unionAlpha(s.p), taint: sTaint(s)}
	nc := make(map[*Str]Piece, len(st.flatCache)+1)
	for k, v := range st.flatCache {
		nc[k] = v
	}
	nc[s] = f
	st.flatCache = nc
	return f
}

func unionAlpha(ps []Piece) *alphabet {
	var a alphabet
	for _, p := range ps {
		if p.isConst() {
			for i := 0; i < len(p.c); i++ {
				a[p.c[i]] = true
			}
			continue
		}
		if p.alpha == nil {
			return nil
		}
		for b, ok := range p.alpha {
			if ok {
				a[b] = true
			}
		}
	}
	return &a
}

func pieceByte(p Piece, i *Term) *Term { return Select(p.arr, Add(p.off, i)) }

// sEq returns the Bool term "a == b".
func (st *State) sEq(a, b *Str) *Term {
	if a == b {
		return tTrue
	}
	ca, oka := a.Const()
	cb, okb := b.Const()
	if oka && okb {
		return B(ca == cb)
	}
	if okb {
		a, b, ca, oka = b, a, cb, true
	}
	// identical ropes
	if len(a.p) == len(b.p) {
		same := true
		for i := range a.p {
			x, y := a.p[i], b.p[i]
			if x.isConst() != y.isConst() || x.c != y.c || x.arr != y.arr || x.off != y.off || x.n != y.n {
				same = false
				break
			}
		}
		if same {
			return tTrue
		}
	}
	// strip a common constant prefix / suffix piece structurally
	if !oka && len(a.p) > 0 && len(b.p) > 0 && a.p[0].isConst() && b.p[0].isConst() {
		x, y := a.p[0].c, b.p[0].c
		k := len(x)
		if len(y) < k {
			k = len(y)
		}
		if x[:k] != y[:k] {
			return tFalse
		}
		na := &Str{p: append([]Piece{{c: x[k:]}}, a.p[1:]...)}
		nb := &Str{p: append([]Piece{{c: y[k:]}}, b.p[1:]...)}
		if x[k:] == "" {
			na = &Str{p: a.p[1:]}
		}
		if y[k:] == "" {
			nb = &Str{p: b.p[1:]}
		}
		return st.sEq(na, nb)
	}
	if oka {
		fb := st.flat(b)
		if len(ca) > fb.cap {
			return tFalse
		}
		cs := []*Term{Eq(fb.n, I(int64(len(ca))))}
		for i := 0; i < len(ca); i++ {
			cs = append(cs, Eq(pieceByte(fb, I(int64(i))), I(int64(ca[i]))))
		}
		return And(cs...)
	}
	fa, fb := st.flat(a), st.flat(b)
	m := fa.cap
	if fb.cap < m {
		m = fb.cap
	}
	cs := []*Term{Eq(fa.n, fb.n), Le(fa.n, I(int64(m)))}
	for i := 0; i < m; i++ {
		ii := I(int64(i))
		cs = append(cs, Implies(Lt(ii, fa.n), Eq(pieceByte(fa, ii), pieceByte(fb, ii))))
	}
	return And(cs...)
}

// sLess returns a < b (lexicographic, bytes).
func (st *State) sLess(a, b *Str) *Term {
	ca, oka := a.Const()
	cb, okb := b.Const()
	if oka && okb {
		return B(ca < cb)
	}
	fa, fb := st.flat(a), st.flat(b)
	m := fa.cap
	if fb.cap < m {
		m = fb.cap
	}
	// exists first difference position d (or a is a proper prefix)
	res := Lt(fa.n, fb.n) // all equal up to min len
	// build from the last position backwards: less(i) = i>=na ? (na<nb) : i>=nb ? false : a[i]<b[i] ? true : a[i]>b[i] ? false : less(i+1)
	acc := Lt(fa.n, fb.n)
	for i := m - 1; i >= 0; i-- {
		ii := I(int64(i))
		x, y := pieceByte(fa, ii), pieceByte(fb, ii)
		acc = Ite(Or(Le(fa.n, ii), Le(fb.n, ii)), Lt(fa.n, fb.n), Ite(Lt(x, y), tTrue, Ite(Lt(y, x), tFalse, acc)))
	}
	_ = res
	return acc
}

// sSlice returns s[lo:hi]; the caller has established 0 <= lo <= hi <= len(s).
func (st *State) sSlice(s *Str, lo, hi *Term) *Str {
	if c, ok := s.Const(); ok {
		l, ok1 := lo.ConstInt()
		h, ok2 := hi.ConstInt()
		if ok1 && ok2 {
			return constStr(c[l:h])
		}
	}
	if l, ok := lo.ConstInt(); ok && l == 0 {
		if hi == sLen(s) {
			return s
		}
	}
	// structural slicing at piece boundaries / inside constant pieces (no constraints needed)
	if len(s.p) > 1 {
		offs := s.offsets()
		i0, k0, ok0 := s.locate(offs, lo)
		i1, k1, ok1 := s.locate(offs, hi)
		if ok0 && ok1 && (i0 < i1 || (i0 == i1 && k0 <= k1)) {
			return s.subRope(i0, k0, i1, k1)
		}
	}
	f := st.flat(s)
	n := Sub(hi, lo)
	if k, ok := n.ConstInt(); ok && k == 0 {
		return emptyStr
	}
	cap := f.cap
	if l, ok := lo.ConstInt(); ok {
		cap = f.cap - int(l)
	}
	if k, ok := n.ConstInt(); ok && int(k) < cap {
		cap = int(k)
	}
	if cap <= 0 {
		return emptyStr
	}
	return &Str{p: []Piece{{arr: f.arr, off: Add(f.off, lo), n: n, cap: cap, alpha: f.alpha, taint: f.taint}}}
}

// sIndexConst returns an Int term equal to strings.Index(s, needle) for a constant needle.
func (st *State) sIndexConst(s *Str, needle string) *Term {
	if c, ok := s.Const(); ok {
		return I(int64(strings.Index(c, needle)))
	}
	m := len(needle)
	if m == 0 {
		return I(0)
	}
	if m == 1 && len(s.p) > 1 {
		offs := s.offsets()
		for i, p := range s.p {
			if !p.mayContain(needle[0]) {
				continue
			}
			if p.isConst() {
				return Add(offs[i], I(int64(strings.IndexByte(p.c, needle[0]))))
			}
			if i == 0 {
				break // generic on the whole string
			}
			rest := &Str{p: s.p[i:]}
			r := st.sIndexConst(rest, needle)
			return Ite(Ge(r, I(0)), Add(offs[i], r), I(-1))
		}
		anyMay := false
		for _, p := range s.p {
			if p.mayContain(needle[0]) {
				anyMay = true
			}
		}
		if !anyMay {
			return I(-1)
		}
	}
	if m == 1 && len(s.p) == 1 && !s.p[0].mayContain(needle[0]) {
		return I(-1)
	}
	f := st.flat(s)
	r := FreshVar("idx", SInt)
	cs := []*Term{Or(Eq(r, I(-1)), And(Le(I(0), r), Le(r, Sub(f.n, I(int64(m))))))}
	for p := 0; p+m <= f.cap; p++ {
		var ms []*Term
		for j := 0; j < m; j++ {
			ms = append(ms, Eq(pieceByte(f, I(int64(p+j))), I(int64(needle[j]))))
		}
		match := And(ms...)
		pp := I(int64(p))
		cs = append(cs, Implies(And(Le(I(int64(p+m)), f.n), match), And(Le(I(0), r), Le(r, pp))))
		cs = append(cs, Implies(Eq(r, pp), match))
	}
	if f.cap < m {
		cs = append(cs, Eq(r, I(-1)))
	}
	st.addDef(And(cs...))
	return r
}

// sHasPrefix returns the Bool term strings.HasPrefix(s, p).
func (st *State) sHasPrefix(s, p *Str) *Term {
	cs, oks := s.Const()
	cp, okp := p.Const()
	if oks && okp {
		return B(strings.HasPrefix(cs, cp))
	}
	if okp && len(s.p) > 0 && s.p[0].isConst() && len(s.p[0].c) >= len(cp) {
		return B(strings.HasPrefix(s.p[0].c, cp))
	}
	fs := st.flat(s)
	if okp {
		if len(cp) > fs.cap {
			return tFalse
		}
		c := []*Term{Le(I(int64(len(cp))), fs.n)}
		for i := 0; i < len(cp); i++ {
			c = append(c, Eq(pieceByte(fs, I(int64(i))), I(int64(cp[i]))))
		}
		return And(c...)
	}
	fp := st.flat(p)
	c := []*Term{Le(fp.n, fs.n)}
	m := fp.cap
	for i := 0; i < m; i++ {
		ii := I(int64(i))
		if i >= fs.cap {
			c = append(c, Le(fp.n, ii))
			break
		}
		c = append(c, Implies(Lt(ii, fp.n), Eq(pieceByte(fs, ii), pieceByte(fp, ii))))
	}
	return And(c...)
}

// sHasSuffix returns the Bool term strings.HasSuffix(s, p).
func (st *State) sHasSuffix(s, p *Str) *Term {
	cs, oks := s.Const()
	cp, okp := p.Const()
	if oks && okp {
		return B(strings.HasSuffix(cs, cp))
	}
	fs := st.flat(s)
	fp := st.flat(p)
	c := []*Term{Le(fp.n, fs.n)}
	base := Sub(fs.n, fp.n)
	for i := 0; i < fp.cap; i++ {
		ii := I(int64(i))
		c = append(c, Implies(Lt(ii, fp.n), Eq(pieceByte(fs, Add(base, ii)), pieceByte(fp, ii))))
	}
	if fp.cap > fs.cap {
		c = append(c, Le(fp.n, I(int64(fs.cap))))
	}
	return And(c...)
}

// sContainsByteSet returns "s contains any byte of set".
func (st *State) sContainsAny(s *Str, set string) *Term {
	if c, ok := s.Const(); ok {
		return B(strings.ContainsAny(c, set))
	}
	f := st.flat(s)
	var any []*Term
	for i := 0; i < f.cap; i++ {
		ii := I(int64(i))
		var hit []*Term
		for j := 0; j < len(set); j++ {
			hit = append(hit, Eq(pieceByte(f, ii), I(int64(set[j]))))
		}
		any = append(any, And(Lt(ii, f.n), Or(hit...)))
	}
	return Or(any...)
}

// sAllBytes returns "every byte of s satisfies pred".
func (st *State) sAllBytes(s *Str, pred func(b *Term) *Term) *Term {
	if c, ok := s.Const(); ok {
		var cs []*Term
		for i := 0; i < len(c); i++ {
			cs = append(cs, pred(I(int64(c[i]))))
		}
		return And(cs...)
	}
	var cs []*Term
	for _, p := range s.p {
		if p.isConst() {
			for i := 0; i < len(p.c); i++ {
				cs = append(cs, pred(I(int64(p.c[i]))))
			}
		} else {
			for i := 0; i < p.cap; i++ {
				ii := I(int64(i))
				cs = append(cs, Implies(Lt(ii, p.n), pred(pieceByte(p, ii))))
			}
		}
	}
	return And(cs...)
}

func inSet(b *Term, set string) *Term {
	var hit []*Term
	// compress into ranges
	var present [256]bool
	for i := 0; i < len(set); i++ {
		present[set[i]] = true
	}
	for i := 0; i < 256; {
		if !present[i] {
			i++
			continue
		}
		j := i
		for j+1 < 256 && present[j+1] {
			j++
		}
		if i == j {
			hit = append(hit, Eq(b, I(int64(i))))
		} else {
			hit = append(hit, And(Le(I(int64(i)), b), Le(b, I(int64(j)))))
		}
		i = j + 1
	}
	return Or(hit...)
}

func isASCIISpace(b *Term) *Term {
	return Or(Eq(b, I(' ')), And(Le(I(9), b), Le(b, I(13))))
}

// sTrimSpace models strings.TrimSpace for ASCII input (the caller records the assumption).
func (st *State) sTrimSpace(s *Str) *Str {
	if c, ok := s.Const(); ok {
		return constStr(strings.TrimSpace(c))
	}
	if t, ok := trimSpaceStructural(s); ok {
		return t
	}
	f := st.flat(s)
	a := FreshVar("trim_a", SInt)
	b := FreshVar("trim_b", SInt)
	cs := []*Term{Le(I(0), a), Le(a, b), Le(b, f.n)}
	for i := 0; i < f.cap; i++ {
		ii := I(int64(i))
		by := pieceByte(f, ii)
		cs = append(cs, Implies(Lt(ii, a), isASCIISpace(by)))
		cs = append(cs, Implies(And(Le(b, ii), Lt(ii, f.n)), isASCIISpace(by)))
	}
	cs = append(cs, Implies(Lt(a, f.n), Not(isASCIISpace(pieceByte(f, a)))))
	cs = append(cs, Implies(Lt(a, f.n), And(Lt(a, b), Not(isASCIISpace(pieceByte(f, Sub(b, I(1))))))))
	cs = append(cs, Implies(Eq(a, f.n), Eq(b, a)))
	st.addDef(And(cs...))
	return &Str{p: []Piece{{arr: f.arr, off: Add(f.off, a), n: Sub(b, a), cap: f.cap, alpha: f.alpha, taint: f.taint}}}
}

// trimSpaceStructural trims whitespace when it can only occur in constant pieces at the ends.
func trimSpaceStructural(s *Str) (*Str, bool) {
	ps := append([]Piece(nil), s.p...)
	// leading constant whitespace
	for len(ps) > 0 && ps[0].isConst() {
		t := strings.TrimLeft(ps[0].c, " \t\n\v\f\r")
		if t == "" {
			ps = ps[1:]
			continue
		}
		ps[0] = Piece{c: t, taint: ps[0].taint}
		break
	}
	for len(ps) > 0 && ps[len(ps)-1].isConst() {
		t := strings.TrimRight(ps[len(ps)-1].c, " \t\n\v\f\r")
		if t == "" {
			ps = ps[:len(ps)-1]
			continue
		}
		ps[len(ps)-1] = Piece{c: t, taint: ps[len(ps)-1].taint}
		break
	}
	if len(ps) == 0 {
		return emptyStr, true
	}
	// after stripping, the result is exact if no remaining piece can expose whitespace at an end:
	// either nothing may contain whitespace at all, or both end pieces are constants
	none := true
	for _, p := range ps {
		if p.mayContainSpace() {
			none = false
		}
	}
	if none || (ps[0].isConst() && ps[len(ps)-1].isConst()) {
		return &Str{p: ps}, true
	}
	// an end may also be made of symbolic pieces that cannot contain whitespace (possibly empty),
	// provided the constant piece behind them does not end (begin) with whitespace itself
	j := len(ps) - 1
	for j >= 0 && !ps[j].isConst() && !ps[j].mayContainSpace() {
		j--
	}
	rightOK := j < 0 || (ps[j].isConst() && ps[j].c != "" && strings.TrimRight(ps[j].c, " \t\n\v\f\r") == ps[j].c)
	i := 0
	for i < len(ps) && !ps[i].isConst() && !ps[i].mayContainSpace() {
		i++
	}
	leftOK := i >= len(ps) || (ps[i].isConst() && ps[i].c != "" && strings.TrimLeft(ps[i].c, " \t\n\v\f\r") == ps[i].c)
	if leftOK && rightOK {
		return &Str{p: ps}, true
	}
	return nil, false
}

// sMapBytes returns a string of the same length whose bytes are fn(byte).
func (st *State) sMapBytes(s *Str, fn func(b *Term) *Term, goFn func(byte) byte) *Str {
	if c, ok := s.Const(); ok {
		bs := []byte(c)
		for i := range bs {
			bs[i] = goFn(bs[i])
		}
		return constStr(string(bs))
	}
	f := st.flat(s)
	arr := FreshVar("map_a", SArr)
	var cs []*Term
	for i := 0; i < f.cap; i++ {
		ii := I(int64(i))
		cs = append(cs, Implies(Lt(ii, f.n), Eq(Select(arr, ii), fn(pieceByte(f, ii)))))
	}
	st.addDef(And(cs...))
	return &Str{p: []Piece{{arr: arr, off: I(0), n: f.n, cap: f.cap, taint: f.taint}}}
}

func lowerByte(b *Term) *Term {
	return Ite(And(Le(I('A'), b), Le(b, I('Z'))), Add(b, I(32)), b)
}

// sEqualFoldConst models strings.EqualFold(s, c) for a constant c without 'k','s' (whose
// fold orbits contain non-ASCII runes).
func (st *State) sEqualFoldConst(s *Str, c string) (*Term, bool) {
	ks := false
	for i := 0; i < len(c); i++ {
		ch := c[i] | 0x20
		if c[i] >= 0x80 {
			return nil, false
		}
		if ch == 'k' || ch == 's' {
			ks = true
		}
	}
	if cs, ok := s.Const(); ok {
		return B(strings.EqualFold(cs, c)), true
	}
	if ks {
		// 'k' and 's' also fold to the Kelvin sign and the long s: exact (byte-wise) for an all-ASCII
		// argument, an uninterpreted predicate of the argument otherwise
		f := st.flat(s)
		if len(c) > f.cap {
			uf, _ := st.ufStrings("equalFold:"+c, s, emptyStr)
			return And(Not(st.sAllBytes(s, func(b *Term) *Term { return Lt(b, I(128)) })), uf), true
		}
		t := []*Term{Eq(f.n, I(int64(len(c))))}
		for i := 0; i < len(c); i++ {
			by := pieceByte(f, I(int64(i)))
			ch := c[i]
			if ch >= 'a' && ch <= 'z' || ch >= 'A' && ch <= 'Z' {
				t = append(t, Or(Eq(by, I(int64(ch|0x20))), Eq(by, I(int64(ch&^0x20)))))
			} else {
				t = append(t, Eq(by, I(int64(ch))))
			}
		}
		uf, _ := st.ufStrings("equalFold:"+c, s, emptyStr)
		return Ite(st.sAllBytes(s, func(b *Term) *Term { return Lt(b, I(128)) }), And(t...), uf), true
	}
	f := st.flat(s)
	if len(c) > f.cap {
		return tFalse, true
	}
	t := []*Term{Eq(f.n, I(int64(len(c))))}
	for i := 0; i < len(c); i++ {
		by := pieceByte(f, I(int64(i)))
		ch := c[i]
		if ch >= 'a' && ch <= 'z' || ch >= 'A' && ch <= 'Z' {
			t = append(t, Or(Eq(by, I(int64(ch|0x20))), Eq(by, I(int64(ch&^0x20)))))
		} else {
			t = append(t, Eq(by, I(int64(ch))))
		}
	}
	return And(t...), true
}

// sIte returns a string equal to a when c holds and to b otherwise.
func (st *State) sIte(c *Term, a, b *Str) *Str {
	if c.IsTrue() {
		return a
	}
	if c.IsFalse() {
		return b
	}
	fa, fb := st.flat(a), st.flat(b)
	if ca, ok := a.Const(); ok && ca == "" {
		fa = Piece{arr: fb.arr, off: I(0), n: I(0), cap: 0}
	}
	cap := fa.cap
	if fb.cap > cap {
		cap = fb.cap
	}
	arr := FreshVar("ite_a", SArr)
	n := FreshVar("ite_n", SInt)
	cs := []*Term{Eq(n, Ite(c, fa.n, fb.n))}
	for i := 0; i < cap; i++ {
		ii := I(int64(i))
		var v *Term
		switch {
		case i < fa.cap && i < fb.cap:
			v = Ite(c, pieceByte(fa, ii), pieceByte(fb, ii))
		case i < fa.cap:
			v = pieceByte(fa, ii)
		default:
			v = pieceByte(fb, ii)
		}
		cs = append(cs, Implies(Lt(ii, n), Eq(Select(arr, ii), v)))
	}
	st.addDef(And(cs...))
	return &Str{p: []Piece{{arr: arr, off: I(0), n: n, cap: cap, taint: sTaint(a) | sTaint(b)}}}
}

// splitOutcome is one way strings.Split(s, sep) can come out: exactly k separators.
type splitOutcome struct {
	cond  *Term
	parts []*Str
}

// sSplitByte enumerates strings.Split(s, sep) for a 1-byte separator with 0..maxSep separators;
// the last outcome (parts == nil) is "more than maxSep separators".
func (st *State) sSplitByte(s *Str, sep byte, maxSep int) []splitOutcome {
	if c, ok := s.Const(); ok {
		var parts []*Str
		for _, x := range strings.Split(c, string(sep)) {
			parts = append(parts, constStr(x))
		}
		return []splitOutcome{{cond: tTrue, parts: parts}}
	}
	// structural split: the separator can only occur in constant pieces
	structural := true
	for _, p := range s.p {
		if !p.isConst() && p.mayContain(sep) {
			structural = false
		}
	}
	if structural {
		var parts []*Str
		cur := emptyStr
		for _, p := range s.p {
			if !p.isConst() {
				cur = sConcat(cur, &Str{p: []Piece{p}})
				continue
			}
			segs := strings.Split(p.c, string(sep))
			for i, seg := range segs {
				if i > 0 {
					parts = append(parts, cur)
					cur = emptyStr
				}
				cur = sConcat(cur, constStr(seg))
			}
		}
		parts = append(parts, cur)
		return []splitOutcome{{cond: tTrue, parts: parts}}
	}
	f := st.flat(s)
	// count of separators as a term
	var outs []splitOutcome
	isSep := func(i int) *Term {
		ii := I(int64(i))
		return And(Lt(ii, f.n), Eq(pieceByte(f, ii), I(int64(sep))))
	}
	for k := 0; k <= maxSep && k <= f.cap; k++ {
		pos := make([]*Term, k)
		cs := []*Term{}
		for j := 0; j < k; j++ {
			pos[j] = FreshVar(fmt.Sprintf("sp%d", j), SInt)
			lo := I(0)
			if j > 0 {
				lo = Add(pos[j-1], I(1))
			}
			cs = append(cs, Le(lo, pos[j]), Lt(pos[j], f.n))
			cs = append(cs, Eq(pieceByte(f, pos[j]), I(int64(sep))))
		}
		for i := 0; i < f.cap; i++ {
			var at []*Term
			for j := 0; j < k; j++ {
				at = append(at, Eq(pos[j], I(int64(i))))
			}
			cs = append(cs, Implies(isSep(i), Or(at...)))
		}
		var parts []*Str
		prev := I(0)
		for j := 0; j <= k; j++ {
			end := f.n
			if j < k {
				end = pos[j]
			}
			parts = append(parts, &Str{p: []Piece{{arr: f.arr, off: Add(f.off, prev), n: Sub(end, prev), cap: f.cap - j, alpha: f.alpha, taint: f.taint}}})
			if j < k {
				prev = Add(pos[j], I(1))
			}
		}
		outs = append(outs, splitOutcome{cond: And(cs...), parts: parts})
	}
	// more than maxSep separators: at least maxSep+1 positions are separators
	if f.cap > maxSep {
		k := maxSep + 1
		pos := make([]*Term, k)
		cs := []*Term{}
		for j := 0; j < k; j++ {
			pos[j] = FreshVar(fmt.Sprintf("spx%d", j), SInt)
			lo := I(0)
			if j > 0 {
				lo = Add(pos[j-1], I(1))
			}
			cs = append(cs, Le(lo, pos[j]), Lt(pos[j], f.n), Eq(pieceByte(f, pos[j]), I(int64(sep))))
		}
		outs = append(outs, splitOutcome{cond: And(cs...)})
	}
	return outs
}
