package main

// Contract stubs for the standard library and logging.

import (
	"regexp"
	gopath "path"
	"fmt"
	"math/big"
	"time"
	"go/token"
	"go/types"
	"strings"

	"golang.org/x/tools/go/ssa"
)

const loggerIface = "github.com/tetratelabs/telemetry.Logger"

func (e *Engine) sliceValues(st *State, v Value) []Value {
	sl, ok := v.(SliceV)
	if !ok {
		unm("expected slice, got %T", v)
	}
	if sl.obj == 0 {
		return nil
	}
	return st.heap.objs[sl.obj].(*ArrayV).e[sl.off : sl.off+sl.len]
}

func (e *Engine) mkSlice(st *State, vals []Value) SliceV {
	if len(vals) == 0 {
		return SliceV{obj: st.newObj(&ArrayV{}), len: 0, cap: 0}
	}
	return SliceV{obj: st.newObj(&ArrayV{e: append([]Value(nil), vals...)}), len: len(vals), cap: len(vals)}
}

var errSeq int

// newError creates a fresh non-nil error value (dynamic type *errors.errorString).
func (e *Engine) newError(st *State, msg string, wraps ...Value) IfaceV {
	return IfaceV{t: e.errType, v: OpaqueV{kind: "error", data: &errData{msg: msg, wraps: wraps, id: int(objSeqNext())}}}
}

func objSeqNext() int64 {
	termMu.Lock()
	defer termMu.Unlock()
	errSeq++
	return int64(errSeq)
}

type errData struct {
	msg   string
	wraps []Value
	id    int
	taint uint32 // union of the taints of the values the message was formatted from (C14)
}

// valueTaint: the taint classes a value would contribute to a text it is formatted into.
func valueTaint(v Value) uint32 {
	switch x := v.(type) {
	case *Str:
		return sTaint(x)
	case BytesV:
		return sTaint(x.s)
	case IfaceV:
		if x.t == nil {
			return 0
		}
		if op, ok := x.v.(OpaqueV); ok {
			if ed, ok := op.data.(*errData); ok {
				t := ed.taint
				for _, w := range ed.wraps {
					t |= valueTaint(w)
				}
				return t
			}
			return 0
		}
		return valueTaint(x.v)
	}
	return 0
}

func errorIs(err, target Value) bool {
	a, ok := err.(IfaceV)
	if !ok || a.t == nil {
		return false
	}
	b, _ := target.(IfaceV)
	if ao, ok := a.v.(OpaqueV); ok {
		if bo, ok := b.v.(OpaqueV); ok && ao.data == bo.data {
			return true
		}
		if d, ok := ao.data.(*errData); ok {
			for _, w := range d.wraps {
				if errorIs(w, target) {
					return true
				}
			}
		}
		return false
	}
	if ap, ok := a.v.(Ptr); ok {
		if bp, ok := b.v.(Ptr); ok && ap.obj == bp.obj {
			return true
		}
	}
	return false
}

func (e *Engine) opaqueString(st *State, what string) *Str {
	return st.newSymStr("opq_"+what, 4)
}

func (e *Engine) registerStdlib() {
	r := func(name string, f Intrinsic) { e.intr[name] = f }
	ri := func(iface, method string, f Intrinsic) { e.invokeI["invoke:"+iface+"."+method] = f }

	// ---- logging (no effect)
	self := func(c *CallCtx) []Outcome { return c.ret(c.args[0]) }
	nop := func(c *CallCtx) []Outcome { return c.ret(nil) }
	for _, m := range []string{"Debug", "Info", "Error", "SetLevel"} {
		ri(loggerIface, m, nop)
	}
	for _, m := range []string{"With", "Context", "Metric", "Clone"} {
		ri(loggerIface, m, self)
	}
	ri(loggerIface, "Level", func(c *CallCtx) []Outcome { return c.ret(I(5)) })
	mkLogger := func(c *CallCtx) []Outcome {
		return c.ret(IfaceV{t: c.e.loggerType, v: OpaqueV{kind: "logger"}})
	}
	r("github.com/istio-ecosystem/authservice/internal.Logger", mkLogger)
	r("github.com/tetratelabs/telemetry.NoopLogger", mkLogger)

	// ---- strings
	r("strings.Index", func(c *CallCtx) []Outcome {
		needle, ok := c.args[1].(*Str).Const()
		if !ok {
			unm("strings.Index with symbolic needle")
		}
		return c.ret(c.st.sIndexConst(c.args[0].(*Str), needle))
	})
	r("strings.IndexByte", func(c *CallCtx) []Outcome {
		b, ok := c.args[1].(*Term).ConstInt()
		if !ok {
			unm("strings.IndexByte with symbolic byte")
		}
		return c.ret(c.st.sIndexConst(c.args[0].(*Str), string([]byte{byte(b)})))
	})
	r("strings.Contains", func(c *CallCtx) []Outcome {
		needle, ok := c.args[1].(*Str).Const()
		if !ok {
			unm("strings.Contains with symbolic needle")
		}
		return c.ret(Ge(c.st.sIndexConst(c.args[0].(*Str), needle), I(0)))
	})
	r("strings.ContainsAny", func(c *CallCtx) []Outcome {
		return c.ret(c.st.sContainsAny(c.args[0].(*Str), mustConstStr(c.args[1])))
	})
	r("strings.ContainsRune", func(c *CallCtx) []Outcome {
		b, ok := c.args[1].(*Term).ConstInt()
		if !ok || b >= 0x80 {
			unm("strings.ContainsRune non-ASCII/symbolic")
		}
		return c.ret(c.st.sContainsAny(c.args[0].(*Str), string([]byte{byte(b)})))
	})
	r("strings.HasPrefix", func(c *CallCtx) []Outcome {
		return c.ret(c.st.sHasPrefix(c.args[0].(*Str), c.args[1].(*Str)))
	})
	r("strings.HasSuffix", func(c *CallCtx) []Outcome {
		return c.ret(c.st.sHasSuffix(c.args[0].(*Str), c.args[1].(*Str)))
	})
	r("strings.TrimPrefix", func(c *CallCtx) []Outcome {
		s, p := c.args[0].(*Str), c.args[1].(*Str)
		has := c.st.sHasPrefix(s, p)
		a, b := c.e.forkOn(c.st, has)
		var outs []Outcome
		if a != nil {
			outs = append(outs, Outcome{st: a, val: a.sSlice(s, sLen(p), sLen(s))})
		}
		if b != nil {
			outs = append(outs, Outcome{st: b, val: s})
		}
		return outs
	})
	r("strings.TrimSuffix", func(c *CallCtx) []Outcome {
		s, p := c.args[0].(*Str), c.args[1].(*Str)
		has := c.st.sHasSuffix(s, p)
		a, b := c.e.forkOn(c.st, has)
		var outs []Outcome
		if a != nil {
			outs = append(outs, Outcome{st: a, val: a.sSlice(s, I(0), Sub(sLen(s), sLen(p)))})
		}
		if b != nil {
			outs = append(outs, Outcome{st: b, val: s})
		}
		return outs
	})
	r("strings.TrimSpace", func(c *CallCtx) []Outcome {
		s := c.args[0].(*Str)
		if _, ok := s.Const(); !ok {
			c.e.noteAssume("strings.TrimSpace/ToLower inputs are ASCII (bytes < 0x80); Unicode space/case folding is outside the model")
			c.st.assume(c.st.sAllBytes(s, func(b *Term) *Term { return Lt(b, I(128)) }))
		}
		return c.ret(c.st.sTrimSpace(s))
	})
	r("strings.ToLower", func(c *CallCtx) []Outcome {
		s := c.args[0].(*Str)
		if _, ok := s.Const(); !ok {
			c.e.noteAssume("strings.TrimSpace/ToLower inputs are ASCII (bytes < 0x80); Unicode space/case folding is outside the model")
			c.st.assume(c.st.sAllBytes(s, func(b *Term) *Term { return Lt(b, I(128)) }))
		}
		return c.ret(c.st.sMapBytes(s, lowerByte, func(b byte) byte {
			if b >= 'A' && b <= 'Z' {
				return b + 32
			}
			return b
		}))
	})
	r("path.Clean", func(c *CallCtx) []Outcome {
		// exact on constants; on a symbolic string exact for the two shapes that matter for request
		// paths -- already clean rooted paths (result: the path itself) and a clean rooted path
		// followed by one more '/' (result: without it); any other shape ends that path as unmodelled
		s := c.args[0].(*Str)
		if cs, ok := s.Const(); ok {
			return c.ret(constStr(gopath.Clean(cs)))
		}
		st := c.st
		f := st.flat(s)
		by := func(i int) *Term { return pieceByte(f, I(int64(i))) }
		isSlash := func(i int) *Term { return Eq(by(i), I('/')) }
		// cleanUpTo(n): bytes [0,n) form a clean rooted path (n >= 1)
		cleanN := func(n *Term) *Term {
			cs := []*Term{Ge(n, I(1)), isSlash(0)}
			for i := 0; i < f.cap; i++ {
				in := Lt(I(int64(i)), n)
				last := Eq(I(int64(i+1)), n)
				// no empty segment, no trailing slash (except the root itself)
				if i+1 < f.cap {
					cs = append(cs, Implies(And(in, isSlash(i), Lt(I(int64(i+1)), n)), Not(isSlash(i+1))))
				}
				if i > 0 {
					cs = append(cs, Implies(And(in, last), Not(isSlash(i))))
				}
				// no "." or ".." segment
				if i > 0 {
					dot := Eq(by(i), I('.'))
					endsAfter1 := Eq(I(int64(i+1)), n)
					if i+1 < f.cap {
						endsAfter1 = Or(endsAfter1, And(Lt(I(int64(i+1)), n), isSlash(i+1)))
					}
					cs = append(cs, Implies(And(in, isSlash(i-1), dot), Not(endsAfter1)))
					if i+1 < f.cap {
						dot2 := And(dot, Lt(I(int64(i+1)), n), Eq(by(i+1), I('.')))
						endsAfter2 := Eq(I(int64(i+2)), n)
						if i+2 < f.cap {
							endsAfter2 = Or(endsAfter2, And(Lt(I(int64(i+2)), n), isSlash(i+2)))
						}
						cs = append(cs, Implies(And(in, isSlash(i-1), dot2), Not(endsAfter2)))
					}
				}
			}
			return And(cs...)
		}
		clean := cleanN(f.n)
		var trailing *Term = tFalse
		if f.cap >= 3 {
			var lastSlash []*Term
			for i := 2; i < f.cap; i++ {
				lastSlash = append(lastSlash, And(Eq(f.n, I(int64(i+1))), isSlash(i)))
			}
			trailing = And(Or(lastSlash...), cleanN(Sub(f.n, I(1))), Ge(f.n, I(3)))
		}
		sts := c.e.forkMany(st, []*Term{clean, And(Not(clean), trailing), And(Not(clean), Not(trailing))})
		var outs []Outcome
		if sts[0] != nil {
			outs = append(outs, Outcome{st: sts[0], val: s})
		}
		if sts[1] != nil {
			outs = append(outs, Outcome{st: sts[1], val: sts[1].sSlice(s, I(0), Sub(f.n, I(1)))})
		}
		if sts[2] != nil {
			c.e.inconclusive("UNMODELLED path.Clean on a symbolic path that is neither clean nor clean plus a trailing slash")
			c.e.endPath(sts[2])
		}
		return outs
	})
	r("strings.EqualFold", func(c *CallCtx) []Outcome {
		a, b := c.args[0].(*Str), c.args[1].(*Str)
		if cb, ok := b.Const(); ok {
			if t, ok := c.st.sEqualFoldConst(a, cb); ok {
				return c.ret(t)
			}
		}
		if ca, ok := a.Const(); ok {
			if t, ok := c.st.sEqualFoldConst(b, ca); ok {
				return c.ret(t)
			}
		}
		unm("strings.EqualFold on two symbolic strings / k,s fold orbit")
		return nil
	})
	r("strings.Split", func(c *CallCtx) []Outcome {
		s := c.args[0].(*Str)
		sep := mustConstStr(c.args[1])
		if len(sep) != 1 {
			unm("strings.Split with separator %q", sep)
		}
		k := c.e.bound("split-max-separators", 2)
		outs := c.st.sSplitByte(s, sep[0], k)
		conds := make([]*Term, len(outs))
		for i, o := range outs {
			conds[i] = o.cond
		}
		sts := c.e.forkMany(c.st, conds)
		var res []Outcome
		for i, s2 := range sts {
			if s2 == nil {
				continue
			}
			if outs[i].parts == nil {
				c.e.noteAssume(fmt.Sprintf("strings.Split: at most %d separators per split string (bound split-max-separators)", k))
				c.e.endPath(s2)
				continue
			}
			vals := make([]Value, len(outs[i].parts))
			for j, p := range outs[i].parts {
				vals[j] = p
			}
			res = append(res, Outcome{st: s2, val: c.e.mkSlice(s2, vals)})
		}
		return res
	})
	r("strings.SplitN", func(c *CallCtx) []Outcome {
		// Split, then the parts from the n-th on are joined again (they are the unsplit remainder)
		n, ok := c.args[2].(*Term).ConstInt()
		if !ok {
			unm("strings.SplitN with a symbolic count")
		}
		if n == 0 {
			return c.ret(SliceV{})
		}
		outs := c.e.intr["strings.Split"](&CallCtx{e: c.e, st: c.st, args: c.args[:2], pos: c.pos, fn: c.fn})
		if n < 0 {
			return outs
		}
		sep := c.args[1].(*Str)
		for i := range outs {
			if outs[i].st == nil || outs[i].val == nil {
				continue
			}
			parts := c.e.sliceValues(outs[i].st, outs[i].val)
			if int64(len(parts)) <= n {
				continue
			}
			rest := parts[n-1].(*Str)
			for _, p := range parts[n:] {
				rest = sConcat(sConcat(rest, sep), p.(*Str))
			}
			vals := append(append([]Value(nil), parts[:n-1]...), rest)
			outs[i].val = c.e.mkSlice(outs[i].st, vals)
		}
		return outs
	})
	r("strings.Join", func(c *CallCtx) []Outcome {
		elems := c.e.sliceValues(c.st, c.args[0])
		sep := c.args[1].(*Str)
		out := emptyStr
		for i, el := range elems {
			if i > 0 {
				out = sConcat(out, sep)
			}
			out = sConcat(out, el.(*Str))
		}
		return c.ret(out)
	})
	r("strings.Replace", func(c *CallCtx) []Outcome {
		s := c.args[0].(*Str)
		old := mustConstStr(c.args[1])
		nw := c.args[2].(*Str)
		n := mustConstInt(c.args[3])
		if cs, ok := s.Const(); ok {
			if cn, ok := nw.Const(); ok {
				return c.ret(constStr(strings.Replace(cs, old, cn, n)))
			}
		}
		if n != 1 || old == "" {
			unm("strings.Replace with n != 1 on a symbolic string")
		}
		idx := c.st.sIndexConst(s, old)
		a, b := c.e.forkOn(c.st, Ge(idx, I(0)))
		var outs []Outcome
		if a != nil {
			pre := a.sSlice(s, I(0), idx)
			post := a.sSlice(s, Add(idx, I(int64(len(old)))), sLen(s))
			outs = append(outs, Outcome{st: a, val: sConcat(sConcat(pre, nw), post)})
		}
		if b != nil {
			outs = append(outs, Outcome{st: b, val: s})
		}
		return outs
	})
	r("strings.NewReader", func(c *CallCtx) []Outcome {
		return c.ret(Ptr{obj: c.st.newObj(OpaqueV{kind: "reader", data: c.args[0]})})
	})
	r("(*strings.Builder).WriteString", func(c *CallCtx) []Outcome {
		p := c.args[0].(Ptr)
		cur, _ := c.st.ghostStr(p)
		c.st.setGhostStr(p, sConcat(cur, c.args[1].(*Str)))
		return c.ret(TupleV{sLen(c.args[1].(*Str)), IfaceV{}})
	})
	r("(*strings.Builder).WriteByte", func(c *CallCtx) []Outcome {
		p := c.args[0].(Ptr)
		cur, _ := c.st.ghostStr(p)
		b, ok := c.args[1].(*Term).ConstInt()
		if !ok {
			unm("Builder.WriteByte symbolic")
		}
		c.st.setGhostStr(p, sConcat(cur, constStr(string([]byte{byte(b)}))))
		return c.ret(IfaceV{})
	})
	r("(*strings.Builder).String", func(c *CallCtx) []Outcome {
		cur, _ := c.st.ghostStr(c.args[0].(Ptr))
		return c.ret(cur)
	})
	r("(*strings.Builder).Len", func(c *CallCtx) []Outcome {
		cur, _ := c.st.ghostStr(c.args[0].(Ptr))
		return c.ret(sLen(cur))
	})
	r("(*bytes.Buffer).WriteString", e.intr["(*strings.Builder).WriteString"])
	r("(*bytes.Buffer).String", e.intr["(*strings.Builder).String"])
	r("(*bytes.Buffer).Bytes", func(c *CallCtx) []Outcome {
		cur, _ := c.st.ghostStr(c.args[0].(Ptr))
		return c.ret(BytesV{s: cur})
	})
	r("(*bytes.Buffer).Write", func(c *CallCtx) []Outcome {
		p := c.args[0].(Ptr)
		cur, _ := c.st.ghostStr(p)
		b := c.args[1].(BytesV)
		c.st.setGhostStr(p, sConcat(cur, b.s))
		return c.ret(TupleV{sLen(b.s), IfaceV{}})
	})

	// ---- fmt / errors
	r("fmt.Sprintf", func(c *CallCtx) []Outcome { return c.ret(c.e.sprintf(c.st, c.args[0], c.args[1])) })
	r("fmt.Sprint", func(c *CallCtx) []Outcome { return c.ret(c.e.opaqueString(c.st, "sprint")) })
	r("fmt.Printf", func(c *CallCtx) []Outcome { return c.ret(TupleV{I(0), IfaceV{}}) })
	r("fmt.Println", func(c *CallCtx) []Outcome { return c.ret(TupleV{I(0), IfaceV{}}) })
	r("fmt.Errorf", func(c *CallCtx) []Outcome {
		format, _ := c.args[0].(*Str).Const()
		var wraps []Value
		if strings.Contains(format, "%w") {
			for _, a := range c.e.sliceValues(c.st, c.args[1]) {
				if iv, ok := a.(IfaceV); ok && iv.t != nil && types.Implements(iv.t, c.e.errorIface) {
					wraps = append(wraps, iv)
				} else if iv, ok := a.(IfaceV); ok {
					if _, isErr := iv.v.(OpaqueV); isErr {
						wraps = append(wraps, iv)
					}
				}
			}
		}
		ev := c.e.newError(c.st, format, wraps...)
		ed := ev.v.(OpaqueV).data.(*errData)
		for _, a := range c.e.sliceValues(c.st, c.args[1]) {
			ed.taint |= valueTaint(a)
		}
		return c.ret(ev)
	})
	r("errors.New", func(c *CallCtx) []Outcome {
		m, _ := c.args[0].(*Str).Const()
		return c.ret(c.e.newError(c.st, m))
	})
	r("errors.Is", func(c *CallCtx) []Outcome { return c.ret(B(errorIs(c.args[0], c.args[1]))) })
	r("errors.Join", func(c *CallCtx) []Outcome {
		var wraps []Value
		for _, a := range c.e.sliceValues(c.st, c.args[0]) {
			if iv := a.(IfaceV); iv.t != nil {
				wraps = append(wraps, iv)
			}
		}
		if len(wraps) == 0 {
			return c.ret(IfaceV{})
		}
		return c.ret(c.e.newError(c.st, "join", wraps...))
	})
	r("opaque:error.Error", func(c *CallCtx) []Outcome {
		return c.ret(sWithTaint(c.e.opaqueString(c.st, "errmsg"), valueTaint(c.args[0])))
	})

	// ---- time
	r("time.Now", func(c *CallCtx) []Outcome {
		if v, ok := c.st.ghost["time.Now"]; ok {
			return c.ret(v)
		}
		unm("time.Now called directly (the harness must provide Clock.NowFn or vn.SetNow)")
		return nil
	})
	r(vnPkg+".SetNow", func(c *CallCtx) []Outcome {
		c.st.ghost["time.Now"] = c.args[0]
		return c.ret(nil)
	})
	tv := func(v Value) *Term { return v.(TimeV).ns }
	r("(time.Time).Add", func(c *CallCtx) []Outcome { return c.ret(TimeV{Add(tv(c.args[0]), c.args[1].(*Term))}) })
	r("(time.Time).Sub", func(c *CallCtx) []Outcome {
		d := Sub(tv(c.args[0]), tv(c.args[1]))
		maxD := I(1<<63 - 1)
		minD := I(-1 << 63)
		return c.ret(Ite(Gt(d, maxD), maxD, Ite(Lt(d, minD), minD, d)))
	})
	r("(time.Time).Before", func(c *CallCtx) []Outcome { return c.ret(Lt(tv(c.args[0]), tv(c.args[1]))) })
	r("(time.Time).After", func(c *CallCtx) []Outcome { return c.ret(Gt(tv(c.args[0]), tv(c.args[1]))) })
	r("(time.Time).Equal", func(c *CallCtx) []Outcome { return c.ret(Eq(tv(c.args[0]), tv(c.args[1]))) })
	r("(time.Time).Compare", func(c *CallCtx) []Outcome {
		a, b := tv(c.args[0]), tv(c.args[1])
		return c.ret(Ite(Lt(a, b), I(-1), Ite(Gt(a, b), I(1), I(0))))
	})
	r("(time.Time).IsZero", func(c *CallCtx) []Outcome { return c.ret(Eq(tv(c.args[0]), zeroTimeNs)) })
	r("(time.Time).Unix", func(c *CallCtx) []Outcome { return c.ret(DivFloor(tv(c.args[0]), I(1e9))) })
	r("(time.Time).UnixNano", func(c *CallCtx) []Outcome { return c.ret(tv(c.args[0])) })
	r("(time.Time).UTC", func(c *CallCtx) []Outcome { return c.ret(c.args[0]) })
	r("(time.Time).Local", func(c *CallCtx) []Outcome { return c.ret(c.args[0]) })
	r("(time.Time).Round", func(c *CallCtx) []Outcome { return c.ret(c.args[0]) })
	r("(time.Time).Truncate", func(c *CallCtx) []Outcome {
		d, ok := c.args[1].(*Term).ConstInt()
		if !ok || d <= 0 {
			return c.ret(c.args[0])
		}
		// relative to the zero Time, as Go does
		rel := Sub(tv(c.args[0]), zeroTimeNs)
		return c.ret(TimeV{Add(zeroTimeNs, Mul(DivFloor(rel, I(d)), I(d)))})
	})
	r("(time.Time).Format", func(c *CallCtx) []Outcome {
		// the formatted text is opaque, but remembers the instant so that time.Parse of the very
		// same string returns it (round trip of RFC3339Nano is trusted)
		s := c.e.opaqueString(c.st, "timefmt")
		c.st.ghost[strKey("timefmt", s)] = c.args[0]
		return c.ret(s)
	})
	r("time.Parse", func(c *CallCtx) []Outcome {
		s := c.args[1].(*Str)
		if v, ok := c.st.ghost[strKey("timefmt", s)]; ok {
			return c.ret(TupleV{v, IfaceV{}})
		}
		if cs, ok := s.Const(); ok {
			layout, _ := c.args[0].(*Str).Const()
			t, err := time.Parse(layout, cs)
			if err != nil {
				return c.ret(TupleV{TimeV{zeroTimeNs}, c.e.newError(c.st, "time.Parse")})
			}
			ns := new(big.Int).Mul(big.NewInt(t.Unix()), big.NewInt(1000000000))
			ns.Add(ns, big.NewInt(int64(t.Nanosecond())))
			return c.ret(TupleV{TimeV{IBig(ns)}, IfaceV{}})
		}
		unm("time.Parse on a symbolic string")
		return nil
	})
	r("(time.Time).String", func(c *CallCtx) []Outcome { return c.ret(c.e.opaqueString(c.st, "timefmt")) })
	r("time.Unix", func(c *CallCtx) []Outcome {
		return c.ret(TimeV{Add(Mul(c.args[0].(*Term), I(1e9)), c.args[1].(*Term))})
	})
	r("(time.Duration).String", func(c *CallCtx) []Outcome {
		if d, ok := c.args[0].(*Term).ConstInt(); ok {
			return c.ret(constStr(durationString(d)))
		}
		return c.ret(c.e.durationStr(c.st, c.args[0].(*Term)))
	})
	r("(time.Duration).Seconds", func(c *CallCtx) []Outcome {
		d, ok := c.args[0].(*Term).ConstInt()
		if !ok {
			unm("Duration.Seconds symbolic")
		}
		return c.ret(FloatV{float64(d) / 1e9})
	})

	// ---- sync
	lock := func(write bool) Intrinsic {
		return func(c *CallCtx) []Outcome {
			p := c.args[0].(Ptr)
			if p.IsNil() {
				return c.panicOut("nil-mutex")
			}
			mv, ok := c.st.load(p).(MutexV)
			if !ok {
				unm("Lock on %T", c.st.load(p))
			}
			if mv.held != 0 && (write || mv.held == 1) {
				if len(c.st.threads) > 1 {
					unm("contended mutex under the virtual scheduler")
				}
				c.e.reportFinding(c.st, "self-deadlock", "assert", c.e.pos(c.pos), nil)
				c.e.endPath(c.st)
				return nil
			}
			if write {
				c.st.store(p, MutexV{held: 1})
			} else {
				h := mv.held
				if h == 0 {
					h = 1
				}
				c.st.store(p, MutexV{held: h + 1})
			}
			c.st.lockset = append(append([]string(nil), c.st.lockset...), ptrKey(p))
			return c.ret(nil)
		}
	}
	unlock := func(write bool) Intrinsic {
		return func(c *CallCtx) []Outcome {
			p := c.args[0].(Ptr)
			mv := c.st.load(p).(MutexV)
			if mv.held == 0 {
				c.e.reportFinding(c.st, "unlock-of-unlocked-mutex", "assert", c.e.pos(c.pos), nil)
				c.e.endPath(c.st)
				return nil
			}
			if write || mv.held <= 2 {
				c.st.store(p, MutexV{})
			} else {
				c.st.store(p, MutexV{held: mv.held - 1})
			}
			k := ptrKey(p)
			var ls []string
			removed := false
			for i := len(c.st.lockset) - 1; i >= 0; i-- {
				if !removed && c.st.lockset[i] == k {
					removed = true
					continue
				}
				ls = append([]string{c.st.lockset[i]}, ls...)
			}
			c.st.lockset = ls
			return c.ret(nil)
		}
	}
	r("(*sync.Mutex).Lock", lock(true))
	r("(*sync.Mutex).Unlock", unlock(true))
	r("(*sync.RWMutex).Lock", lock(true))
	r("(*sync.RWMutex).Unlock", unlock(true))
	r("(*sync.RWMutex).RLock", lock(false))
	r("(*sync.RWMutex).RUnlock", unlock(false))

	// ---- regexp: the match is an uninterpreted predicate of (pattern, subject). Whether a pattern
	// compiles is exact for constants; a symbolic pattern is "invalid" exactly when it is one of a
	// few witnesses that really do not compile -- the code under test cannot tell invalid patterns
	// apart (it only sees the error), every other invalid pattern behaves like a valid one that does
	// not match (the predicate may be false), and a counterexample with an invalid pattern replays
	reInvalid := func(st *State, re *Str) *Term {
		if cs, ok := re.Const(); ok {
			_, err := regexp.Compile(cs)
			return B(err != nil)
		}
		var alts []*Term
		for _, w := range []string{"(", "[", "*", ")", "(?!a)", "\\"} {
			alts = append(alts, st.sEq(re, constStr(w)))
		}
		return Or(alts...)
	}
	r("regexp.MatchString", func(c *CallCtx) []Outcome {
		re, s := c.args[0].(*Str), c.args[1].(*Str)
		m, _ := c.st.ufStrings("reMatch", re, s)
		bad := reInvalid(c.st, re)
		if cr, ok := re.Const(); ok {
			if cs, ok2 := s.Const(); ok2 {
				if b, err := regexp.MatchString(cr, cs); err == nil {
					m = B(b)
				}
			}
		}
		// invalid pattern => (false, err)
		a, b := c.e.forkOn(c.st, bad)
		var outs []Outcome
		if a != nil {
			outs = append(outs, Outcome{st: a, val: TupleV{tFalse, c.e.newError(a, "regexp")}})
		}
		if b != nil {
			outs = append(outs, Outcome{st: b, val: TupleV{m, IfaceV{}}})
		}
		return outs
	})

	// compiled patterns: the same uninterpreted (match, invalid) pair, split over Compile and the
	// method; a nil *Regexp panics like the real one
	compile := func(c *CallCtx) []Outcome {
		re := c.args[0].(*Str)
		bad := reInvalid(c.st, re)
		a, b := c.e.forkOn(c.st, bad)
		var outs []Outcome
		if a != nil {
			outs = append(outs, Outcome{st: a, val: TupleV{Ptr{}, c.e.newError(a, "regexp")}})
		}
		if b != nil {
			outs = append(outs, Outcome{st: b, val: TupleV{Ptr{obj: b.newObj(OpaqueV{kind: "regexp", data: re})}, IfaceV{}}})
		}
		return outs
	}
	r("regexp.Compile", compile)
	r("(*regexp.Regexp).MatchString", func(c *CallCtx) []Outcome {
		p := c.args[0].(Ptr)
		if p.IsNil() {
			return c.panicOut("nil-deref-regexp")
		}
		re := c.st.heap.objs[p.obj].(OpaqueV).data.(*Str)
		m, _ := c.st.ufStrings("reMatch", re, c.args[1].(*Str))
		return c.ret(m)
	})

	// ---- sync.Map with string keys: a map guarded by its own lock (accesses are synchronised by
	// construction, so they are not part of the lockset audit)
	syncMapOf := func(c *CallCtx) (string, *MapObj) {
		p := c.args[0].(Ptr)
		key := "syncmap:" + ptrKey(p)
		if v, ok := c.st.ghost[key]; ok {
			return key, c.st.heap.objs[v.(MapV).obj].(*MapObj)
		}
		return key, &MapObj{}
	}
	strKeyOf := func(v Value) *Str {
		iv, ok := v.(IfaceV)
		if !ok {
			unm("sync.Map key %T", v)
		}
		s, ok := iv.v.(*Str)
		if !ok {
			unm("sync.Map with a key that is not a string")
		}
		return s
	}
	r("(*sync.Map).Load", func(c *CallCtx) []Outcome {
		_, mo := syncMapOf(c)
		k := strKeyOf(c.args[1])
		cands := c.e.mapCandidates(c.st, mo, k)
		conds := make([]*Term, len(cands))
		for i, cd := range cands {
			conds[i] = cd.cond
		}
		var outs []Outcome
		for i, s2 := range c.e.forkMany(c.st, conds) {
			if s2 == nil {
				continue
			}
			if cands[i].index < 0 {
				outs = append(outs, Outcome{st: s2, val: TupleV{IfaceV{}, tFalse}})
			} else {
				outs = append(outs, Outcome{st: s2, val: TupleV{mo.entries[cands[i].index].v, tTrue}})
			}
		}
		return outs
	})
	r("(*sync.Map).LoadOrStore", func(c *CallCtx) []Outcome {
		key, mo := syncMapOf(c)
		k := strKeyOf(c.args[1])
		cands := c.e.mapCandidates(c.st, mo, k)
		conds := make([]*Term, len(cands))
		for i, cd := range cands {
			conds[i] = cd.cond
		}
		var outs []Outcome
		for i, s2 := range c.e.forkMany(c.st, conds) {
			if s2 == nil {
				continue
			}
			if cands[i].index >= 0 {
				outs = append(outs, Outcome{st: s2, val: TupleV{mo.entries[cands[i].index].v, tTrue}})
				continue
			}
			n := &MapObj{entries: append(append([]MapEntry(nil), mo.entries...), MapEntry{k: k, v: c.args[2]})}
			s2.ghost[key] = MapV{obj: s2.newObj(n)}
			outs = append(outs, Outcome{st: s2, val: TupleV{c.args[2], tFalse}})
		}
		return outs
	})
	r("(*sync.Map).Store", func(c *CallCtx) []Outcome {
		key, mo := syncMapOf(c)
		k := strKeyOf(c.args[1])
		cands := c.e.mapCandidates(c.st, mo, k)
		conds := make([]*Term, len(cands))
		for i, cd := range cands {
			conds[i] = cd.cond
		}
		var outs []Outcome
		for i, s2 := range c.e.forkMany(c.st, conds) {
			if s2 == nil {
				continue
			}
			n := &MapObj{entries: append([]MapEntry(nil), mo.entries...)}
			if cands[i].index < 0 {
				n.entries = append(n.entries, MapEntry{k: k, v: c.args[2]})
			} else {
				n.entries[cands[i].index] = MapEntry{k: n.entries[cands[i].index].k, v: c.args[2]}
			}
			s2.ghost[key] = MapV{obj: s2.newObj(n)}
			outs = append(outs, Outcome{st: s2, val: nil})
		}
		return outs
	})

	// ---- context
	r("context.Background", func(c *CallCtx) []Outcome {
		return c.ret(IfaceV{t: c.e.ctxType, v: OpaqueV{kind: "context"}})
	})
	r("context.TODO", e.intr["context.Background"])

	// ---- strconv
	r("strconv.ParseBool", func(c *CallCtx) []Outcome {
		s := c.args[0].(*Str)
		trues := []string{"1", "t", "T", "TRUE", "true", "True"}
		falses := []string{"0", "f", "F", "FALSE", "false", "False"}
		var isT, isF []*Term
		for _, x := range trues {
			isT = append(isT, c.st.sEq(s, constStr(x)))
		}
		for _, x := range falses {
			isF = append(isF, c.st.sEq(s, constStr(x)))
		}
		t, f := Or(isT...), Or(isF...)
		sts := c.e.forkMany(c.st, []*Term{t, f, And(Not(t), Not(f))})
		var outs []Outcome
		if sts[0] != nil {
			outs = append(outs, Outcome{st: sts[0], val: TupleV{tTrue, IfaceV{}}})
		}
		if sts[1] != nil {
			outs = append(outs, Outcome{st: sts[1], val: TupleV{tFalse, IfaceV{}}})
		}
		if sts[2] != nil {
			outs = append(outs, Outcome{st: sts[2], val: TupleV{tFalse, c.e.newError(sts[2], "parsebool")}})
		}
		return outs
	})
	r("strconv.Itoa", func(c *CallCtx) []Outcome {
		if v, ok := c.args[0].(*Term).ConstInt(); ok {
			return c.ret(constStr(fmt.Sprint(v)))
		}
		return c.ret(c.e.opaqueString(c.st, "itoa"))
	})
}

func ptrKey(p Ptr) string { return fmt.Sprintf("o%d%v", p.obj, p.path) }

// ghost strings attached to builder / buffer objects
func (st *State) ghostStr(p Ptr) (*Str, bool) {
	v, ok := st.ghost["buf:"+ptrKey(p)]
	if !ok {
		return emptyStr, false
	}
	return v.(*Str), true
}

func (st *State) setGhostStr(p Ptr, s *Str) { st.ghost["buf:"+ptrKey(p)] = s }

// ufStrings applies a binary uninterpreted predicate pair (result, invalid) to two strings, with
// functional consistency enforced against earlier applications on this path (Ackermann).
type ufApp struct {
	a, b *Str
	r, e *Term
}

func (st *State) ufStrings(name string, a, b *Str) (*Term, *Term) {
	key := "uf:" + name
	var apps []ufApp
	if v, ok := st.ghost[key]; ok {
		apps = v.([]ufApp)
	}
	r := FreshVar(name+"_r", SBool)
	er := FreshVar(name+"_e", SBool)
	for _, ap := range apps {
		same := And(st.sEq(a, ap.a), st.sEq(b, ap.b))
		st.addDef(Implies(same, And(Eq(r, ap.r), Eq(er, ap.e))))
		// "invalid pattern" depends on the pattern only
		st.addDef(Implies(st.sEq(a, ap.a), Eq(er, ap.e)))
	}
	st.ghost[key] = append(append([]ufApp(nil), apps...), ufApp{a, b, r, er})
	return r, er
}

func durationString(d int64) string {
	// time.Duration(d).String() without importing time semantics differences
	return fmtDuration(d)
}

// sprintf models fmt.Sprintf exactly for the verbs used on symbolic data (%s %d %t %v on
// strings/ints/bools with constant structure); anything else yields an opaque string.
func (e *Engine) sprintf(st *State, fv, argsv Value) Value {
	v := e.sprintf0(st, fv, argsv)
	// whatever could not be formatted exactly still carries the taint of what went into it
	var t uint32
	for _, a := range e.sliceValues(st, argsv) {
		t |= valueTaint(a)
	}
	if s, ok := v.(*Str); ok && t != 0 && sTaint(s)&t != t {
		return sWithTaint(s, sTaint(s)|t)
	}
	return v
}

func (e *Engine) sprintf0(st *State, fv, argsv Value) Value {
	format, ok := fv.(*Str).Const()
	if !ok {
		return e.opaqueString(st, "sprintf")
	}
	args := e.sliceValues(st, argsv)
	out := emptyStr
	ai := 0
	for i := 0; i < len(format); i++ {
		ch := format[i]
		if ch != '%' {
			out = sConcat(out, constStr(string(ch)))
			continue
		}
		i++
		if i >= len(format) {
			return e.opaqueString(st, "sprintf")
		}
		verb := format[i]
		if verb == '%' {
			out = sConcat(out, constStr("%"))
			continue
		}
		if ai >= len(args) {
			return e.opaqueString(st, "sprintf")
		}
		a := args[ai]
		ai++
		iv, isI := a.(IfaceV)
		if !isI || iv.t == nil {
			return e.opaqueString(st, "sprintf")
		}
		switch x := iv.v.(type) {
		case *Str:
			if verb == 's' || verb == 'v' {
				out = sConcat(out, x)
				continue
			}
			if c, ok := x.Const(); ok && verb == 'q' {
				out = sConcat(out, constStr(fmt.Sprintf("%q", c)))
				continue
			}
		case *Term:
			if x.sort == SBool && (verb == 't' || verb == 'v') {
				out = sConcat(out, st.sIte(x, constStr("true"), constStr("false")))
				continue
			}
			if x.sort == SInt && (verb == 'd' || verb == 'v') {
				if c, ok := x.ConstInt(); ok {
					if b, isB := iv.t.Underlying().(*types.Basic); isB && b.Info()&types.IsInteger != 0 && verb == 'd' {
						out = sConcat(out, constStr(fmt.Sprint(c)))
						continue
					}
				}
			}
		}
		return e.opaqueString(st, "sprintf")
	}
	return out
}

var _ = token.NoPos
var _ ssa.Value
