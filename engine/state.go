package main

import (
	"fmt"
	"go/token"
	"go/types"
	"sort"
	"strings"
	"sync"
	"sync/atomic"
	"time"

	"golang.org/x/tools/go/ssa"
)

type deferred struct {
	fn   Value // FuncV
	args []Value
	call *ssa.CallCommon
	recv Value
}

type Frame struct {
	fn      *ssa.Function
	blk     *ssa.BasicBlock
	prev    *ssa.BasicBlock
	ip      int
	regs    map[ssa.Value]Value
	defers  []deferred
	retTo   ssa.Value // register in the caller frame that receives the result (nil: discarded)
	running bool      // RunDefers in progress
	rdIdx   int
	results Value
	final   bool // results set; frame returns after remaining defers
	id      int64
	loop    map[*ssa.BasicBlock]int // back-edge counts of this activation (unwinding check)
	barrier bool // summarisation boundary: returning from this frame ends the sub-exploration
}

func (f *Frame) clone() *Frame {
	n := *f
	n.regs = make(map[ssa.Value]Value, len(f.regs)+4)
	for k, v := range f.regs {
		n.regs[k] = v
	}
	n.defers = append([]deferred(nil), f.defers...)
	if f.loop != nil {
		n.loop = make(map[*ssa.BasicBlock]int, len(f.loop))
		for k, v := range f.loop {
			n.loop[k] = v
		}
	}
	return &n
}

type Thread struct {
	name   string
	frames []*Frame
	done   bool
	// blocked on a mutex object (Ptr) until it is free
	waitMu *Ptr
}

func (t *Thread) clone() *Thread {
	n := &Thread{name: t.name, done: t.done, waitMu: t.waitMu}
	n.frames = make([]*Frame, len(t.frames))
	for i, f := range t.frames {
		n.frames[i] = f.clone()
	}
	return n
}

// InputRec is one nondeterministic input created by a vn.* call, in call order.
type InputRec struct {
	Name string
	Kind string // bool,int,string,choice,time
	T    *Term  // bool/int/time
	S    *Str   // string
	Pick int    // choice
}

type State struct {
	eng       *Engine
	slv       *Solver
	pc        *PC
	heap      *Heap
	threads   []*Thread
	cur       int
	inputs    []InputRec
	events    []string
	tags      []string
	flatCache map[*Str]Piece
	steps     int
	unknowns  int
	harness   string
	ghost     map[string]Value // engine-level per-path ghost state (registries)
	loopCount map[*ssa.BasicBlock]int
	sched     []string
	lockset   []string
	pendingDocAssign []docAssign
	pendingStrChoice []strChoice
	sumDone   bool
	sumPending bool
	sumCoarse  bool
	stops     []stopPoint
	arrived   int
	pcChecked *PC
	sumRes    Value
	wantYield string
	done      bool
	// access log for lockset analysis (C16)
	accesses []Access
	audit    bool
}

type Access struct {
	Obj   int
	Path  string
	Write bool
	Locks string
	Where string
	Thr   string
}

func (st *State) clone() *State {
	n := *st
	n.heap = st.heap.clone()
	n.threads = make([]*Thread, len(st.threads))
	for i, t := range st.threads {
		n.threads[i] = t.clone()
	}
	n.inputs = append([]InputRec(nil), st.inputs...)
	n.events = append([]string(nil), st.events...)
	n.tags = append([]string(nil), st.tags...)
	n.sched = append([]string(nil), st.sched...)
	n.accesses = append([]Access(nil), st.accesses...)
	g := make(map[string]Value, len(st.ghost))
	for k, v := range st.ghost {
		g[k] = v
	}
	n.ghost = g
	lc := make(map[*ssa.BasicBlock]int, len(st.loopCount))
	for k, v := range st.loopCount {
		lc[k] = v
	}
	n.loopCount = lc
	atomic.AddInt64(&st.eng.stats.States, 1)
	return &n
}

func (st *State) addDef(t *Term) { st.pc = st.pc.With(t) }
func (st *State) assume(t *Term) { st.pc = st.pc.With(t) }

func (st *State) thread() *Thread { return st.threads[st.cur] }
func (st *State) top() *Frame {
	t := st.thread()
	return t.frames[len(t.frames)-1]
}

func (st *State) newObj(v Value) int {
	id := int(atomic.AddInt64(&objSeq, 1))
	st.heap.objs[id] = v
	return id
}

func (st *State) load(p Ptr) Value {
	v, ok := st.heap.objs[p.obj]
	if !ok {
		panic(fmt.Sprintf("load: dangling object %d", p.obj))
	}
	return getPath(v, p.path)
}

func (st *State) store(p Ptr, nv Value) {
	v := st.heap.objs[p.obj]
	st.heap.objs[p.obj] = setPath(v, p.path, nv)
}

// check decides pc ∧ t.
func (st *State) check(t *Term) Res {
	if t.IsFalse() {
		return Unsat
	}
	st.slv.Sync(st.pc.Slice())
	r := st.slv.Check(t)
	if r == Unsat && gCross != nil {
		gCross.samplePrune(st, t)
	}
	return r
}

// gCross, when set, samples infeasibility verdicts (every pruneStride-th "unsat" at a branch, an
// assumption or a cover) for the second-solver check, besides the discharged assertions.
var gCross *Engine
var pruneSeen, pruneDumped int64

const pruneStride = 40

func (e *Engine) samplePrune(st *State, t *Term) {
	n := atomic.AddInt64(&pruneSeen, 1)
	if n%pruneStride != 1 || atomic.LoadInt64(&pruneDumped) >= int64(e.crossMax*25) {
		return
	}
	k := atomic.AddInt64(&pruneDumped, 1)
	e.mu.Lock()
	e.crossN["infeasible"] = 0
	e.mu.Unlock()
	e.writeScript(st, fmt.Sprintf("infeasible-%d", k), t)
}

// ---------------------------------------------------------------- engine

type Stats struct {
	States      int64
	Instrs      int64
	Paths       int64
	PanicCut    int64
	AssumeCut   int64
	Obligations int64
	Discharged  int64
	UnknownObl  int64
	Forks       int64
	Summaries   int64
	Merges      int64
	MergedStates int64
	SummaryPaths int64
}

type Finding struct {
	Harness string
	Label   string
	Kind    string // assert, panic
	Where   string
	Tags    []string
	Events  []string
	Sched   []string
	Inputs  []CexInput
	Sig     string
	Bounds  map[string]int // the bounds in force when it was found (the native twin reads them)
}

type CexInput struct {
	Name  string `json:"name"`
	Kind  string `json:"kind"`
	Int   string `json:"int,omitempty"`
	Bool  bool   `json:"bool,omitempty"`
	Bytes []byte `json:"bytes,omitempty"`
	Pick  int    `json:"pick,omitempty"`
}

type Engine struct {
	prog      *ssa.Program
	fset      *token.FileSet
	pkgs      map[string]*ssa.Package
	intr      map[string]Intrinsic
	invokeI   map[string]Intrinsic
	bounds    map[string]int
	globals   map[*ssa.Global]int
	initHeap  *Heap
	initPkgs  map[string]bool
	stats     Stats
	mu        sync.Mutex
	findings  []Finding
	covers    map[string]*Finding // label -> witness
	coverWant map[string]bool
	incon     []string // inconclusive reasons
	funcsSeen map[string]bool
	stubsSeen map[string]bool
	assumes   map[string]bool
	oblLabels map[string]int
	panicMode string // "cut" or "finding"
	unwind    int
	maxSteps  int
	solverTO  int
	maxFind   int
	verbose   bool
	audit     bool
	races     map[string]Access2
	errType    types.Type
	errorIface *types.Interface
	loggerType types.Type
	ctxType    types.Type
	inInit     bool
	deadline   time.Duration
	sentinels  map[string]IfaceV
	pathHist   map[string]int
	forkHist   map[string]int
	summarise  map[string]bool
	merging    bool
	concrete   map[string][]CexInput
	crossDir   string         // where discharged obligations are dumped for the second-solver check
	crossMax   int            // per label
	crossN     map[string]int // label -> dumped so far
}

type Access2 struct{ A, B Access }

func (e *Engine) inconclusive(reason string) {
	e.mu.Lock()
	defer e.mu.Unlock()
	for _, r := range e.incon {
		if r == reason {
			return
		}
	}
	if len(e.incon) < 50 {
		e.incon = append(e.incon, reason)
	}
}

func (e *Engine) noteFunc(fn *ssa.Function) {
	name := fn.String()
	e.mu.Lock()
	if !e.funcsSeen[name] {
		pos := e.fset.Position(fn.Pos())
		_ = pos
		e.funcsSeen[name] = true
	}
	e.mu.Unlock()
}

func (e *Engine) noteStub(name string) {
	e.mu.Lock()
	e.stubsSeen[name] = true
	e.mu.Unlock()
}

func (e *Engine) noteAssume(s string) {
	e.mu.Lock()
	e.assumes[s] = true
	e.mu.Unlock()
}

func (e *Engine) bound(name string, def int) int {
	if v, ok := e.bounds[name]; ok {
		return v
	}
	e.mu.Lock()
	e.bounds[name] = def
	e.mu.Unlock()
	return def
}

func sortedKeys(m map[string]bool) []string {
	var out []string
	for k := range m {
		out = append(out, k)
	}
	sort.Strings(out)
	return out
}

func (e *Engine) pos(p token.Pos) string {
	if !p.IsValid() {
		return "?"
	}
	ps := e.fset.Position(p)
	f := ps.Filename
	f = strings.TrimPrefix(f, repoRoot+"/")
	return fmt.Sprintf("%s:%d", f, ps.Line)
}

var _ = types.Identical
