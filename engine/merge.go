package main

// State merging at control-flow joins ("veritesting"-style): when a branch on a symbolic
// condition is feasible both ways, both sides are explored up to the immediate post-dominator of
// the branch (or the exit of the function) and the arriving states are merged into one:
//     pc' = pc ∧ ⋁_i (delta_i ∧ locations = values_i)
// Differences that cannot be expressed as terms (different pointers, shapes, dynamic types,
// different nondeterministic inputs consumed) keep the states apart. Nothing is dropped.

import (
	"fmt"
	"os"
	"reflect"
	"sort"
	"strings"
	"sync"
	"sync/atomic"

	"golang.org/x/tools/go/ssa"
)

type stopPoint struct {
	thread  int
	frameID int64
	blk     *ssa.BasicBlock // nil: exit of the frame
}

var (
	pdomMu    sync.Mutex
	pdomCache = map[*ssa.Function]map[*ssa.BasicBlock]*ssa.BasicBlock{}
)

// ipdom returns the immediate post-dominator of b (nil = function exit).
func ipdom(fn *ssa.Function, b *ssa.BasicBlock) *ssa.BasicBlock {
	pdomMu.Lock()
	defer pdomMu.Unlock()
	m, ok := pdomCache[fn]
	if !ok {
		m = computeIPDom(fn)
		pdomCache[fn] = m
	}
	return m[b]
}

func computeIPDom(fn *ssa.Function) map[*ssa.BasicBlock]*ssa.BasicBlock {
	n := len(fn.Blocks)
	// post-dominator sets over nodes 0..n-1 plus virtual exit n
	full := make([]bool, n+1)
	for i := range full {
		full[i] = true
	}
	pd := make([][]bool, n+1)
	for i := 0; i <= n; i++ {
		pd[i] = append([]bool(nil), full...)
	}
	pd[n] = make([]bool, n+1)
	pd[n][n] = true
	succs := func(i int) []int {
		b := fn.Blocks[i]
		if len(b.Succs) == 0 {
			return []int{n}
		}
		var out []int
		for _, s := range b.Succs {
			out = append(out, s.Index)
		}
		return out
	}
	changed := true
	for changed {
		changed = false
		for i := n - 1; i >= 0; i-- {
			nw := append([]bool(nil), full...)
			for _, s := range succs(i) {
				for k := range nw {
					nw[k] = nw[k] && pd[s][k]
				}
			}
			nw[i] = true
			if !reflect.DeepEqual(nw, pd[i]) {
				pd[i] = nw
				changed = true
			}
		}
	}
	res := map[*ssa.BasicBlock]*ssa.BasicBlock{}
	for i := 0; i < n; i++ {
		// immediate post-dominator: the strict post-dominator that is post-dominated by all others
		var cands []int
		for k := 0; k <= n; k++ {
			if k != i && pd[i][k] {
				cands = append(cands, k)
			}
		}
		best := -1
		for _, c := range cands {
			ok := true
			for _, d := range cands {
				if d != c && !pd[c][d] {
					ok = false
					break
				}
			}
			if ok {
				best = c
				break
			}
		}
		if best >= 0 && best < n {
			res[fn.Blocks[i]] = fn.Blocks[best]
		}
	}
	return res
}

// mergeIf handles an If whose condition is symbolic and feasible both ways.
func (e *Engine) mergeIf(st *State, f *Frame, c *Term) []*State {
	join := ipdom(f.fn, f.blk)
	level := len(st.stops) + 1
	sp := stopPoint{thread: st.cur, frameID: f.id, blk: join}
	mk := func(cond *Term, succ int) *State {
		s := st.clone()
		s.assume(cond)
		s.stops = append(append([]stopPoint(nil), st.stops...), sp)
		fr := s.top()
		e.jump(s, fr, fr.blk.Succs[succ])
		return s
	}
	a := mk(c, 0)
	b := mk(Not(c), 1)
	budget := e.bound("merge-budget-states", 48)
	arrived, others := e.subExplore([]*State{a, b}, level, budget)
	if len(arrived) < 2 {
		e.noteMerge(f, fmt.Sprintf("arrived=%d others=%d", len(arrived), len(others)))
		return append(arrived, others...)
	}
	merged := e.mergeStates(st, arrived)
	e.noteMerge(f, fmt.Sprintf("arrived=%d others=%d merged-into=%d", len(arrived), len(others), len(merged)))
	return append(merged, others...)
}

func (e *Engine) noteMerge(f *Frame, what string) {
	if !e.verbose {
		return
	}
	k := fmt.Sprintf("MERGE %s b%d: %s", f.fn.Name(), f.blk.Index, what)
	e.mu.Lock()
	if e.forkHist == nil {
		e.forkHist = map[string]int{}
	}
	e.forkHist[k]++
	e.mu.Unlock()
}

func (e *Engine) noteWhy(why string) {
	if !e.verbose {
		return
	}
	e.mu.Lock()
	if e.forkHist == nil {
		e.forkHist = map[string]int{}
	}
	e.forkHist["NOMERGE "+why]++
	e.mu.Unlock()
}

// subExplore runs states until they arrive at stop `level`, end, or the budget is exhausted.
func (e *Engine) subExplore(init []*State, level, budget int) (arrived, others []*State) {
	work := append([]*State(nil), init...)
	slv := init[0].slv
	n := 0
	release := func(s *State) *State {
		if len(s.stops) >= level {
			s.stops = s.stops[:level-1]
		}
		return s
	}
	for len(work) > 0 {
		s := work[len(work)-1]
		work = work[:len(work)-1]
		if s.arrived == level {
			s.arrived = 0
			arrived = append(arrived, release(s))
			continue
		}
		if s.arrived > 0 {
			others = append(others, s) // arrived at an outer merge point
			continue
		}
		if s.done {
			continue
		}
		if n >= budget {
			others = append(others, release(s))
			continue
		}
		n++
		s.slv = slv
		succ := e.run(s)
		if s.arrived > 0 {
			work = append(work, s)
			continue
		}
		if s.sumDone {
			others = append(others, release(s))
			continue
		}
		for _, x := range succ {
			if x.sumDone {
				others = append(others, release(x))
			} else {
				work = append(work, x)
			}
		}
	}
	return
}

type missingObj struct{}

type diffLoc struct {
	kind string // "reg", "heap"
	reg  ssa.Value
	obj  int
}

// mergeStates merges states that arrived at the same program point; states whose differences
// cannot be expressed as terms stay separate.
func (e *Engine) mergeStates(base *State, sts []*State) []*State {
	// basic compatibility: same thread structure and same consumed inputs
	ref := sts[0]
	var out []*State
	var cand []*State
	for _, s := range sts {
		ok := len(s.inputs) == len(ref.inputs) && len(s.threads) == len(ref.threads) && s.cur == ref.cur &&
			len(s.events) == len(ref.events) && len(s.tags) == len(ref.tags) && len(s.lockset) == len(ref.lockset) &&
			len(s.pendingDocAssign) == 0 && len(s.accesses) == len(ref.accesses) && s.sumPending == ref.sumPending
		if ok {
			for i := range s.inputs {
				if s.inputs[i].Name != ref.inputs[i].Name || s.inputs[i].T != ref.inputs[i].T || s.inputs[i].S != ref.inputs[i].S || s.inputs[i].Pick != ref.inputs[i].Pick {
					ok = false
					break
				}
			}
		}
		if ok {
			for ti := range s.threads {
				if len(s.threads[ti].frames) != len(ref.threads[ti].frames) {
					ok = false
					break
				}
				for fi := range s.threads[ti].frames {
					a, b := s.threads[ti].frames[fi], ref.threads[ti].frames[fi]
					if a.id != b.id || a.blk != b.blk || a.ip != b.ip || len(a.defers) != len(b.defers) {
						ok = false
						break
					}
				}
			}
		}
		if !ok {
			e.noteWhy(fmt.Sprintf("basic: inputs %d/%d events %d/%d tags %d/%d", len(s.inputs), len(ref.inputs), len(s.events), len(ref.events), len(s.tags), len(ref.tags)))
		}
		if ok && !ghostCompatible(base, s, ref) {
			ok = false
			e.noteWhy("ghost")
		}
		if ok {
			cand = append(cand, s)
		} else {
			out = append(out, s)
		}
	}
	if len(cand) < 2 {
		return append(out, cand...)
	}
	// collect differing locations
	type locVals struct {
		loc  diffLoc
		fi   int
		ti   int
		vals []Value
	}
	var locs []locVals
	// registers of every frame of every thread
	for ti := range ref.threads {
		for fi := range ref.threads[ti].frames {
			keys := map[ssa.Value]bool{}
			for _, s := range cand {
				for k := range s.threads[ti].frames[fi].regs {
					keys[k] = true
				}
			}
			for k := range keys {
				vals := make([]Value, len(cand))
				same := true
				missing := false
				for i, s := range cand {
					v, ok := s.threads[ti].frames[fi].regs[k]
					if !ok {
						missing = true
					}
					vals[i] = v
					if i > 0 && !sameValue(vals[0], v) {
						same = false
					}
				}
				if same && !missing {
					continue
				}
				if missing {
					// a register defined on one side only is dead at the join; drop it
					for _, s := range cand {
						delete(s.threads[ti].frames[fi].regs, k)
					}
					continue
				}
				locs = append(locs, locVals{loc: diffLoc{kind: "reg", reg: k}, fi: fi, ti: ti, vals: vals})
			}
		}
	}
	if ref.sumPending {
		vals := make([]Value, len(cand))
		same := true
		for i, s := range cand {
			vals[i] = s.sumRes
			if i > 0 && !sameValue(vals[0], s.sumRes) {
				same = false
			}
		}
		if !same {
			locs = append(locs, locVals{loc: diffLoc{kind: "sumres"}, vals: vals})
		}
	}
	// heap objects: a location whenever some candidates differ or lack the object
	ids := map[int]bool{}
	for _, s := range cand {
		for id := range s.heap.objs {
			ids[id] = true
		}
	}
	var idList []int
	for id := range ids {
		idList = append(idList, id)
	}
	sort.Ints(idList)
	for _, id := range idList {
		vals := make([]Value, len(cand))
		var first Value
		differ, missing := false, false
		for i, s := range cand {
			v, ok := s.heap.objs[id]
			if !ok {
				missing = true
				vals[i] = missingObj{}
				continue
			}
			vals[i] = v
			if first == nil {
				first = v
			} else if !sameValue(first, v) {
				differ = true
			}
		}
		_ = missing
		if !differ {
			continue // identical wherever present; the union below keeps the single version
		}
		locs = append(locs, locVals{loc: diffLoc{kind: "heap", obj: id}, vals: vals})
	}
	// greedy grouping: a candidate joins a group when, at every location, its value has the
	// group's shape (an object the candidate never allocated is compatible with anything)
	shapes := make([][]string, len(cand))
	for i := range cand {
		shapes[i] = make([]string, len(locs))
		for li, l := range locs {
			if _, m := l.vals[i].(missingObj); m {
				shapes[i][li] = ""
			} else if iv, isI := l.vals[i].(IfaceV); isI && l.loc.kind == "sumres" && ref.sumCoarse {
				// generated validators: any two non-nil errors are the same outcome
				if iv.t == nil {
					shapes[i][li] = "I:nil"
				} else {
					shapes[i][li] = "I:err"
				}
			} else {
				shapes[i][li] = deepShape(l.vals[i])
			}
		}
	}
	if e.verbose && os.Getenv("GOSYM_DEBUGMERGE") != "" {
		for i := range cand {
			fmt.Fprintf(os.Stderr, "MERGESIG cand %d: %v\n", i, shapes[i])
		}
	}
	type grp struct {
		shape []string
		idx   []int
	}
	var grps []*grp
	for i := range cand {
		placed := false
		for _, g := range grps {
			ok := true
			for li := range locs {
				if shapes[i][li] != "" && g.shape[li] != "" && shapes[i][li] != g.shape[li] {
					ok = false
					break
				}
			}
			if ok {
				for li := range locs {
					if g.shape[li] == "" {
						g.shape[li] = shapes[i][li]
					}
				}
				g.idx = append(g.idx, i)
				placed = true
				break
			}
		}
		if !placed {
			grps = append(grps, &grp{shape: append([]string(nil), shapes[i]...), idx: []int{i}})
		}
	}
	groups := map[string][]int{}
	var order []string
	for gi, g := range grps {
		k := fmt.Sprint(gi)
		order = append(order, k)
		groups[k] = g.idx
	}
	for _, k := range order {
		idx := groups[k]
		if len(idx) == 1 {
			out = append(out, cand[idx[0]])
			if len(order) > 1 {
				// find the first location whose shape differs from candidate 0
				for _, l := range locs {
					if deepShape(l.vals[idx[0]]) != deepShape(l.vals[0]) {
						d := deepShape(l.vals[idx[0]])
						if len(d) > 60 {
							d = d[:60]
						}
						nm := ""
						if l.loc.reg != nil {
							nm = l.loc.reg.Name()
						}
						e.noteWhy(fmt.Sprintf("shape %s %s obj%d: %s", l.loc.kind, nm, l.loc.obj, d))
						break
					}
				}
			}
			continue
		}
		m := cand[idx[0]]
		eqs := make([][]*Term, len(idx))
		// union of heap objects allocated on the other sides
		for _, j := range idx[1:] {
			for id, v := range cand[j].heap.objs {
				if _, ok := m.heap.objs[id]; !ok {
					m.heap.objs[id] = v
				}
			}
			uniteGhost(m.ghost, cand[j].ghost)
			for b, n := range cand[j].loopCount {
				if n > m.loopCount[b] {
					m.loopCount[b] = n
				}
			}
			m.steps += cand[j].steps / 4
		}
		// the merged state continues from the base path condition
		deltas := make([][]*Term, len(idx))
		for gi, j := range idx {
			var d []*Term
			for q := cand[j].pc; q != nil && q != base.pc; q = q.parent {
				d = append(d, q.t)
			}
			for l, r := 0, len(d)-1; l < r; l, r = l+1, r-1 {
				d[l], d[r] = d[r], d[l]
			}
			deltas[gi] = d
		}
		m.pc = base.pc
		m.flatCache = base.flatCache
		for _, l := range locs {
			var vals []Value
			var who []int
			for gi, j := range idx {
				if _, miss := l.vals[j].(missingObj); miss {
					continue
				}
				vals = append(vals, l.vals[j])
				who = append(who, gi)
			}
			if len(vals) == 0 {
				continue
			}
			sub := make([][]*Term, len(vals))
			var mv Value
			if l.loc.kind == "sumres" && ref.sumCoarse {
				mv = vals[0]
			} else {
				mv = e.mergeDeep(m, vals, sub)
			}
			for k, gi := range who {
				eqs[gi] = append(eqs[gi], sub[k]...)
			}
			switch l.loc.kind {
			case "reg":
				m.threads[l.ti].frames[l.fi].regs[l.loc.reg] = mv
			case "heap":
				m.heap.objs[l.loc.obj] = mv
			case "sumres":
				m.sumRes = mv
			}
		}
		var disj []*Term
		for gi := range idx {
			disj = append(disj, And(append(append([]*Term(nil), deltas[gi]...), eqs[gi]...)...))
		}
		m.assume(Or(disj...))
		m.pcChecked = nil
		atomic.AddInt64(&e.stats.Merges, 1)
		atomic.AddInt64(&e.stats.MergedStates, int64(len(idx)))
		out = append(out, m)
	}
	return out
}

// ghostCompatible: registries (slices of applications of uninterpreted functions, documents, ...)
// may differ between branches and are united on merge; any other differing ghost entry keeps the
// states apart.
func ghostCompatible(base, a, b *State) bool {
	for k, v := range a.ghost {
		w, ok := b.ghost[k]
		if !ok || shallowEqual(v, w) {
			continue
		}
		rv, rw := reflect.ValueOf(v), reflect.ValueOf(w)
		if rv.Kind() == reflect.Slice && rw.Kind() == reflect.Slice && rv.Type() == rw.Type() {
			continue
		}
		return false
	}
	return true
}

// uniteGhost merges src's ghost entries into dst (union of registries).
func uniteGhost(dst, src map[string]Value) {
	for k, v := range src {
		w, ok := dst[k]
		if !ok {
			dst[k] = v
			continue
		}
		if shallowEqual(v, w) {
			continue
		}
		rv, rw := reflect.ValueOf(v), reflect.ValueOf(w)
		if rv.Kind() == reflect.Slice && rw.Kind() == reflect.Slice && rv.Type() == rw.Type() {
			out := reflect.MakeSlice(rw.Type(), 0, rw.Len()+rv.Len())
			out = reflect.AppendSlice(out, rw)
			for i := 0; i < rv.Len(); i++ {
				dup := false
				for j := 0; j < rw.Len(); j++ {
					if shallowEq(rv.Index(i), rw.Index(j)) {
						dup = true
						break
					}
				}
				if !dup {
					out = reflect.Append(out, rv.Index(i))
				}
			}
			dst[k] = out.Interface()
		}
	}
}

// deepShape describes the part of a value that must be identical for two values to be merged.
func deepShape(v Value) string {
	switch x := v.(type) {
	case nil:
		return "nil"
	case *Term:
		return "T" + x.sort.String()
	case *Str:
		return strShape(x)
	case TimeV:
		return "Time"
	case FloatV:
		return fmt.Sprintf("F%v", x.f)
	case *StructV:
		var p []string
		for _, c := range x.f {
			p = append(p, deepShape(c))
		}
		return "{" + strings.Join(p, ",") + "}"
	case *ArrayV:
		var p []string
		for _, c := range x.e {
			p = append(p, deepShape(c))
		}
		return "[" + strings.Join(p, ",") + "]"
	case TupleV:
		var p []string
		for _, c := range x {
			p = append(p, deepShape(c))
		}
		return "(" + strings.Join(p, ",") + ")"
	case IfaceV:
		if x.t == nil {
			return "I:nil"
		}
		if op, ok := x.v.(OpaqueV); ok {
			return fmt.Sprintf("I:%s:%s:%p", x.t, op.kind, op.data)
		}
		return "I:" + x.t.String() + ":" + deepShape(x.v)
	case Ptr:
		return fmt.Sprintf("P%d%v", x.obj, x.path)
	case SliceV:
		return fmt.Sprintf("Sl%d:%d:%d:%d", x.obj, x.off, x.len, x.cap)
	case MapV:
		return fmt.Sprintf("M%d", x.obj)
	case *MapObj:
		var p []string
		for _, en := range x.entries {
			p = append(p, fmt.Sprintf("%p", en.k)+"=>"+deepShape(en.v))
		}
		return "map{" + strings.Join(p, ",") + "}"
	case BytesV:
		return fmt.Sprintf("B%v", x.isNil)
	case MutexV:
		return fmt.Sprintf("Mu%d", x.held)
	case FuncV:
		return fmt.Sprintf("Fn%p:%s:%d", x.fn, x.intr, len(x.bind))
	case OpaqueV:
		return fmt.Sprintf("O:%s:%p", x.kind, x.data)
	case ChanV:
		return fmt.Sprintf("Ch%d", x.obj)
	}
	return fmt.Sprintf("%T", v)
}

// mergeDeep merges values of identical deepShape.
func (e *Engine) mergeDeep(st *State, vals []Value, eqs [][]*Term) Value {
	all := true
	for _, v := range vals[1:] {
		if !sameValue(vals[0], v) {
			all = false
			break
		}
	}
	if all {
		return vals[0]
	}
	comp := func(get func(Value) Value) []Value {
		out := make([]Value, len(vals))
		for i, v := range vals {
			out[i] = get(v)
		}
		return out
	}
	switch x := vals[0].(type) {
	case *Term, *Str, TimeV:
		return e.mergeInto(st, vals, eqs)
	case *StructV:
		n := &StructV{f: make([]Value, len(x.f))}
		for k := range x.f {
			k := k
			n.f[k] = e.mergeDeep(st, comp(func(v Value) Value { return v.(*StructV).f[k] }), eqs)
		}
		return n
	case *ArrayV:
		n := &ArrayV{e: make([]Value, len(x.e))}
		for k := range x.e {
			k := k
			n.e[k] = e.mergeDeep(st, comp(func(v Value) Value { return v.(*ArrayV).e[k] }), eqs)
		}
		return n
	case TupleV:
		n := make(TupleV, len(x))
		for k := range x {
			k := k
			n[k] = e.mergeDeep(st, comp(func(v Value) Value { return v.(TupleV)[k] }), eqs)
		}
		return n
	case IfaceV:
		if x.t == nil {
			return x
		}
		if _, ok := x.v.(OpaqueV); ok {
			return x
		}
		return IfaceV{t: x.t, v: e.mergeDeep(st, comp(func(v Value) Value { return v.(IfaceV).v }), eqs)}
	case *MapObj:
		n := &MapObj{entries: make([]MapEntry, len(x.entries))}
		for k := range x.entries {
			k := k
			n.entries[k] = MapEntry{k: x.entries[k].k, v: e.mergeDeep(st, comp(func(v Value) Value { return v.(*MapObj).entries[k].v }), eqs)}
		}
		return n
	case BytesV:
		s := e.mergeInto(st, comp(func(v Value) Value { return v.(BytesV).s }), eqs).(*Str)
		return BytesV{s: s, isNil: x.isNil}
	}
	return vals[0]
}

// shallowEqual compares two values structurally without ever following pointers (terms, strings
// and objects are compared by identity).
func shallowEqual(a, b interface{}) bool {
	return shallowEq(reflect.ValueOf(a), reflect.ValueOf(b))
}

func shallowEq(a, b reflect.Value) bool {
	if !a.IsValid() || !b.IsValid() {
		return a.IsValid() == b.IsValid()
	}
	if a.Type() != b.Type() {
		return false
	}
	switch a.Kind() {
	case reflect.Ptr, reflect.Map, reflect.Chan, reflect.Func, reflect.UnsafePointer:
		return a.Pointer() == b.Pointer()
	case reflect.Interface:
		if a.IsNil() || b.IsNil() {
			return a.IsNil() == b.IsNil()
		}
		return shallowEq(a.Elem(), b.Elem())
	case reflect.Slice:
		if a.Len() != b.Len() {
			return false
		}
		if a.Len() > 0 && a.Pointer() == b.Pointer() {
			return true
		}
		for i := 0; i < a.Len(); i++ {
			if !shallowEq(a.Index(i), b.Index(i)) {
				return false
			}
		}
		return true
	case reflect.Array:
		for i := 0; i < a.Len(); i++ {
			if !shallowEq(a.Index(i), b.Index(i)) {
				return false
			}
		}
		return true
	case reflect.Struct:
		for i := 0; i < a.NumField(); i++ {
			if !shallowEq(a.Field(i), b.Field(i)) {
				return false
			}
		}
		return true
	case reflect.String:
		return a.String() == b.String()
	case reflect.Bool:
		return a.Bool() == b.Bool()
	case reflect.Int, reflect.Int8, reflect.Int16, reflect.Int32, reflect.Int64:
		return a.Int() == b.Int()
	case reflect.Uint, reflect.Uint8, reflect.Uint16, reflect.Uint32, reflect.Uint64, reflect.Uintptr:
		return a.Uint() == b.Uint()
	case reflect.Float32, reflect.Float64:
		return a.Float() == b.Float()
	}
	return false
}
