package main

// Contract stubs for the TLS trust configuration logic (C20): certificate pools are abstract
// values "system roots + list of PEM documents", hashes are injective uninterpreted functions,
// file contents come from the harness, contexts carry a cancellation flag.

import (
	"crypto/x509"
	"go/types"
)

type poolData struct {
	sys  bool
	pems []*Str
}

type ctxState struct {
	parent    *ctxState
	cancelled bool
	id        int
}

func (e *Engine) registerTLS() {
	r := func(name string, f Intrinsic) { e.intr[name] = f }
	certPoolT := func(c *CallCtx) types.Type { return c.e.namedType("crypto/x509", "CertPool") }
	_ = certPoolT
	r("crypto/x509.SystemCertPool", func(c *CallCtx) []Outcome {
		c.e.noteAssume("x509.SystemCertPool succeeds (an unavailable system pool is an environment failure outside the claim)")
		id := c.st.newObj(OpaqueV{kind: "certpool", data: &poolData{sys: true}})
		return c.ret(TupleV{Ptr{obj: id}, IfaceV{}})
	})
	r("crypto/x509.NewCertPool", func(c *CallCtx) []Outcome {
		id := c.st.newObj(OpaqueV{kind: "certpool", data: &poolData{}})
		return c.ret(Ptr{obj: id})
	})
	r("(*crypto/x509.CertPool).AppendCertsFromPEM", func(c *CallCtx) []Outcome {
		p := c.args[0].(Ptr)
		if p.IsNil() {
			return c.panicOut("nil-deref-certpool")
		}
		pem := c.args[1].(BytesV).s
		var valid *Term
		if cs, ok := pem.Const(); ok {
			valid = B(x509.NewCertPool().AppendCertsFromPEM([]byte(cs)))
		} else {
			valid, _ = c.st.ufStrings("pemValid", pem, emptyStr)
		}
		a, b := c.e.forkOn(c.st, valid)
		var outs []Outcome
		if a != nil {
			pd := a.heap.objs[p.obj].(OpaqueV).data.(*poolData)
			a.heap.objs[p.obj] = OpaqueV{kind: "certpool", data: &poolData{sys: pd.sys, pems: append(append([]*Str(nil), pd.pems...), pem)}}
			outs = append(outs, Outcome{st: a, val: tTrue})
		}
		if b != nil {
			outs = append(outs, Outcome{st: b, val: tFalse})
		}
		return outs
	})
	r("(*crypto/x509.CertPool).Equal", func(c *CallCtx) []Outcome {
		a, b := c.args[0].(Ptr), c.args[1].(Ptr)
		if a.IsNil() || b.IsNil() {
			return c.ret(B(a.IsNil() && b.IsNil()))
		}
		pa := c.st.heap.objs[a.obj].(OpaqueV).data.(*poolData)
		pb := c.st.heap.objs[b.obj].(OpaqueV).data.(*poolData)
		if pa.sys != pb.sys || len(pa.pems) != len(pb.pems) {
			return c.ret(tFalse)
		}
		var cs []*Term
		for i := range pa.pems {
			cs = append(cs, c.st.sEq(pa.pems[i], pb.pems[i]))
		}
		return c.ret(And(cs...))
	})
	// hashing: injective uninterpreted functions of the bytes written
	r("hash/fnv.New64a", func(c *CallCtx) []Outcome {
		id := c.st.newObj(OpaqueV{kind: "hasher", data: emptyStr})
		return c.ret(IfaceV{t: c.e.namedType("hash", "Hash64"), v: OpaqueV{kind: "hasherref", data: id}})
	})
	r("opaque:hasherref.Write", func(c *CallCtx) []Outcome {
		id := c.args[0].(IfaceV).v.(OpaqueV).data.(int)
		cur := c.st.heap.objs[id].(OpaqueV).data.(*Str)
		b := c.args[1].(BytesV)
		c.st.heap.objs[id] = OpaqueV{kind: "hasher", data: sConcat(cur, b.s)}
		return c.ret(TupleV{sLen(b.s), IfaceV{}})
	})
	r("opaque:hasherref.Sum", func(c *CallCtx) []Outcome {
		id := c.args[0].(IfaceV).v.(OpaqueV).data.(int)
		cur := c.st.heap.objs[id].(OpaqueV).data.(*Str)
		c.e.noteAssume("fnv-64a and hex encoding are modelled as injective functions (hash collisions are outside the claim)")
		return c.ret(BytesV{s: c.st.ufStr("fnv64a", cur, 8, "abcdefghijklmnopqrstuvwxyz0123456789", true, false)})
	})
	r("encoding/hex.EncodeToString", func(c *CallCtx) []Outcome {
		b := c.args[0].(BytesV)
		res := c.st.ufStr("hex", b.s, 16, "0123456789abcdef", true, false)
		return c.ret(res)
	})
	r("encoding/json.Marshal", func(c *CallCtx) []Outcome {
		return c.ret(TupleV{BytesV{s: c.e.opaqueString(c.st, "json")}, IfaceV{}})
	})
	// files
	r(vnPkg+".FilePath", func(c *CallCtx) []Outcome { return c.ret(constStr("/verif-files/" + mustConstStr(c.args[0]))) })
	r(vnPkg+".SetFile", func(c *CallCtx) []Outcome {
		// SetFile(path, content string, readable bool)
		path := mustConstStr(c.args[0])
		c.st.ghost["file:"+path] = TupleV{c.args[1], c.args[2]}
		return c.ret(nil)
	})
	// contexts with cancellation
	r("context.WithCancel", func(c *CallCtx) []Outcome {
		id := c.st.newObj(OpaqueV{kind: "ctxstate", data: &ctxState{}})
		ctx := IfaceV{t: c.e.ctxType, v: OpaqueV{kind: "cctx", data: id}}
		cancel := FuncV{intr: "ctx.cancel", extra: []Value{I(int64(id))}}
		return c.ret(TupleV{ctx, cancel})
	})
	r("ctx.cancel", func(c *CallCtx) []Outcome {
		id := mustConstInt(c.args[0])
		c.st.heap.objs[id] = OpaqueV{kind: "ctxstate", data: &ctxState{cancelled: true}}
		return c.ret(nil)
	})
	r("opaque:cctx.Err", func(c *CallCtx) []Outcome {
		id := c.args[0].(IfaceV).v.(OpaqueV).data.(int)
		if c.st.heap.objs[id].(OpaqueV).data.(*ctxState).cancelled {
			return c.ret(c.e.newErrorOnce("context.Canceled"))
		}
		return c.ret(IfaceV{})
	})
	r("opaque:cctx.Done", func(c *CallCtx) []Outcome {
		id := c.args[0].(IfaceV).v.(OpaqueV).data.(int)
		if c.st.heap.objs[id].(OpaqueV).data.(*ctxState).cancelled {
			return c.ret(ChanV{obj: c.st.newObj(&ArrayV{e: []Value{tTrue}})})
		}
		return c.ret(ChanV{})
	})
	r("time.NewTicker", func(c *CallCtx) []Outcome { return c.ret(Ptr{obj: c.st.newObj(OpaqueV{kind: "ticker"})}) })
}
