package main

// Contract stubs (intrinsics): the vn harness API, builtins and the external callees of the
// code under verification. Every stub used by a run is listed in that run's evidence.

import (
	"fmt"
	"os"
	"path/filepath"
	"sort"
	"go/types"
	"math/big"
	"strconv"
	"strings"
	"sync/atomic"

	"golang.org/x/tools/go/ssa"
)

const vnPkg = "github.com/istio-ecosystem/authservice/internal/vn"

// concreteNext returns the next recorded value for an input name when the engine replays a
// counterexample concretely (debugging aid: GOSYM_CONCRETE=<cex.json>).
func (e *Engine) concreteNext(st *State, name string) (*CexInput, bool) {
	if e.concrete == nil {
		return nil, false
	}
	k := "cx:" + name
	n := 0
	if v, ok := st.ghost[k]; ok {
		n = int(v.(*Term).Int64())
	}
	q := e.concrete[name]
	if n >= len(q) {
		return nil, false
	}
	st.ghost[k] = I(int64(n + 1))
	return &q[n], true
}

func (e *Engine) registerIntrinsics() {
	e.intr = map[string]Intrinsic{}
	e.invokeI = map[string]Intrinsic{}
	r := func(name string, f Intrinsic) { e.intr[name] = f }

	// ---- vn API
	r(vnPkg+".Symbolic", func(c *CallCtx) []Outcome { return c.ret(tTrue) })
	r(vnPkg+".Bool", func(c *CallCtx) []Outcome {
		name := mustConstStr(c.args[0])
		v := FreshVar("b_"+name, SBool)
		c.st.inputs = append(c.st.inputs, InputRec{Name: name, Kind: "bool", T: v})
		if ci, ok := c.e.concreteNext(c.st, name); ok {
			c.st.assume(Eq(v, B(ci.Bool)))
			return c.ret(B(ci.Bool))
		}
		return c.ret(v)
	})
	r(vnPkg+".Int", func(c *CallCtx) []Outcome {
		name := mustConstStr(c.args[0])
		v := FreshVar("i_"+name, SInt)
		c.st.assume(And(Le(c.args[1].(*Term), v), Le(v, c.args[2].(*Term))))
		c.st.inputs = append(c.st.inputs, InputRec{Name: name, Kind: "int", T: v})
		if ci, ok := c.e.concreteNext(c.st, name); ok {
			bi, _ := new(big.Int).SetString(ci.Int, 10)
			if bi == nil {
				bi = big.NewInt(0)
			}
			c.st.assume(Eq(v, IBig(bi)))
			return c.ret(IBig(bi))
		}
		return c.ret(v)
	})
	r(vnPkg+".String", func(c *CallCtx) []Outcome {
		name := mustConstStr(c.args[0])
		cap := mustConstInt(c.args[1])
		s := c.st.newSymStr("s_"+name, cap)
		c.st.inputs = append(c.st.inputs, InputRec{Name: name, Kind: "string", S: s})
		if ci, ok := c.e.concreteNext(c.st, name); ok {
			return c.ret(constStr(string(ci.Bytes)))
		}
		return c.ret(s)
	})
	r(vnPkg+".StringIn", func(c *CallCtx) []Outcome {
		name := mustConstStr(c.args[0])
		cap := mustConstInt(c.args[1])
		alpha := mustConstStr(c.args[2])
		s := c.st.newSymStr("s_"+name, cap)
		c.st.assume(c.st.sAllBytes(s, func(b *Term) *Term { return inSet(b, alpha) }))
		var al alphabet
		for i := 0; i < len(alpha); i++ {
			al[alpha[i]] = true
		}
		s.p[0].alpha = &al
		c.st.inputs = append(c.st.inputs, InputRec{Name: name, Kind: "string", S: s})
		if ci, ok := c.e.concreteNext(c.st, name); ok {
			return c.ret(constStr(string(ci.Bytes)))
		}
		return c.ret(s)
	})
	r(vnPkg+".Choice", func(c *CallCtx) []Outcome {
		name := mustConstStr(c.args[0])
		n := mustConstInt(c.args[1])
		if ci, ok := c.e.concreteNext(c.st, name); ok {
			c.st.inputs = append(c.st.inputs, InputRec{Name: name, Kind: "choice", Pick: ci.Pick})
			return c.ret(I(int64(ci.Pick)))
		}
		var outs []Outcome
		for i := 0; i < n; i++ {
			s := c.st
			if i < n-1 {
				s = c.st.clone()
			}
			s.inputs = append(s.inputs, InputRec{Name: name, Kind: "choice", Pick: i})
			outs = append(outs, Outcome{st: s, val: I(int64(i))})
		}
		return outs
	})
	r(vnPkg+".Time", func(c *CallCtx) []Outcome {
		name := mustConstStr(c.args[0])
		v := FreshVar("t_"+name, SInt)
		lo := int64(c.e.bound("time-lo-unix", 946684800))  // 2000-01-01
		hi := int64(c.e.bound("time-hi-unix", 4102444800)) // 2100-01-01
		c.st.assume(And(Le(Mul(I(lo), I(1e9)), v), Le(v, Mul(I(hi), I(1e9)))))
		c.st.inputs = append(c.st.inputs, InputRec{Name: name, Kind: "time", T: v})
		if ci, ok := c.e.concreteNext(c.st, name); ok {
			bi, _ := new(big.Int).SetString(ci.Int, 10)
			return c.ret(TimeV{IBig(bi)})
		}
		return c.ret(TimeV{v})
	})
	r(vnPkg+".TimeOrZero", func(c *CallCtx) []Outcome {
		name := mustConstStr(c.args[0])
		v := FreshVar("t_"+name, SInt)
		lo := int64(c.e.bound("time-lo-unix", 946684800))
		hi := int64(c.e.bound("time-hi-unix", 4102444800))
		c.st.assume(Or(Eq(v, zeroTimeNs), And(Le(Mul(I(lo), I(1e9)), v), Le(v, Mul(I(hi), I(1e9))))))
		c.st.inputs = append(c.st.inputs, InputRec{Name: name, Kind: "time", T: v})
		if ci, ok := c.e.concreteNext(c.st, name); ok {
			bi, _ := new(big.Int).SetString(ci.Int, 10)
			return c.ret(TimeV{IBig(bi)})
		}
		return c.ret(TimeV{v})
	})
	r(vnPkg+".Secret", func(c *CallCtx) []Outcome {
		s := c.args[0].(*Str)
		class := uint32(mustConstInt(c.args[1]))
		if len(s.p) == 0 {
			return c.ret(s)
		}
		return c.ret(sWithTaint(s, class))
	})
	r(vnPkg+".TaintOf", func(c *CallCtx) []Outcome {
		return c.ret(I(int64(sTaint(c.args[0].(*Str)))))
	})
	r(vnPkg+".Watch", func(c *CallCtx) []Outcome {
		iv := c.args[0].(IfaceV)
		switch x := iv.v.(type) {
		case Ptr:
			c.st.ghost[fmt.Sprintf("watch:%d", x.obj)] = tTrue
		case MapV:
			c.st.ghost[fmt.Sprintf("watch:%d", x.obj)] = tTrue
		}
		c.st.audit = true
		return c.ret(nil)
	})
	r(vnPkg+".WatchWrites", func(c *CallCtx) []Outcome {
		iv := c.args[0].(IfaceV)
		switch x := iv.v.(type) {
		case Ptr:
			c.st.ghost[fmt.Sprintf("watchw:%d", x.obj)] = tTrue
		case MapV:
			c.st.ghost[fmt.Sprintf("watchw:%d", x.obj)] = tTrue
		}
		c.st.audit = true
		return c.ret(nil)
	})
	r(vnPkg+".WatchSharedWrites", func(c *CallCtx) []Outcome {
		// every object that exists now is "shared" (it outlives the call that follows and is reachable
		// by a concurrent call); objects allocated from here on are local to the audited call
		c.st.ghost["watchshared"] = I(atomic.LoadInt64(&objSeq))
		c.st.audit = true
		return c.ret(nil)
	})
	r(vnPkg+".LocksHeld", func(c *CallCtx) []Outcome { return c.ret(I(int64(len(c.st.lockset)))) })
	r(vnPkg+".Unwatch", func(c *CallCtx) []Outcome {
		for k := range c.st.ghost {
			if strings.HasPrefix(k, "watch:") || strings.HasPrefix(k, "watchw:") || k == "watchshared" {
				delete(c.st.ghost, k)
			}
		}
		c.st.audit = false
		return c.ret(nil)
	})
	r(vnPkg+".MutexHeld", func(c *CallCtx) []Outcome {
		p := c.args[0].(Ptr)
		mv, ok := c.st.load(p).(MutexV)
		if !ok {
			unm("MutexHeld on %T", c.st.load(p))
		}
		return c.ret(B(mv.held != 0))
	})
	r(vnPkg+".Bound", func(c *CallCtx) []Outcome {
		name := mustConstStr(c.args[0])
		def := mustConstInt(c.args[1])
		return c.ret(I(int64(c.e.bound(name, def))))
	})
	r(vnPkg+".Assume", func(c *CallCtx) []Outcome {
		cond := c.args[0].(*Term)
		if cond.IsTrue() {
			return c.ret(nil)
		}
		if c.st.check(cond) == Unsat {
			atomic.AddInt64(&c.e.stats.AssumeCut, 1)
			c.e.endPath(c.st)
			return nil
		}
		c.st.assume(cond)
		c.st.pcChecked = c.st.pc
		return c.ret(nil)
	})
	r(vnPkg+".Assert", func(c *CallCtx) []Outcome {
		label := mustConstStr(c.args[0])
		c.e.assertCond(c.st, label, c.args[1].(*Term), c.e.pos(c.pos))
		if c.st.done {
			return nil
		}
		return c.ret(nil)
	})
	// AssertSat: the condition must be SATISFIABLE on this path (used for 2-safety statements of
	// the form "x is not determined by y": there must be two runs agreeing on y and differing on x).
	r(vnPkg+".AssertSat", func(c *CallCtx) []Outcome {
		label := mustConstStr(c.args[0])
		atomic.AddInt64(&c.e.stats.Obligations, 1)
		c.e.mu.Lock()
		c.e.oblLabels["assert-sat:"+label]++
		c.e.mu.Unlock()
		switch c.st.check(c.args[1].(*Term)) {
		case Sat:
			atomic.AddInt64(&c.e.stats.Discharged, 1)
		case Unsat:
			c.e.reportFinding(c.st, label, "determined", c.e.pos(c.pos), nil)
		default:
			atomic.AddInt64(&c.e.stats.UnknownObl, 1)
			c.e.inconclusive("solver unknown on " + label)
		}
		return c.ret(nil)
	})
	r(vnPkg+".Check", e.intr[vnPkg+".Assert"])
	r(vnPkg+".Cover", func(c *CallCtx) []Outcome {
		label := mustConstStr(c.args[0])
		c.e.coverCond(c.st, label, c.args[1].(*Term))
		return c.ret(nil)
	})
	r(vnPkg+".Event", func(c *CallCtx) []Outcome {
		c.st.events = append(c.st.events, mustConstStr(c.args[0]))
		return c.ret(nil)
	})
	r(vnPkg+".Tag", func(c *CallCtx) []Outcome {
		c.st.tags = append(c.st.tags, mustConstStr(c.args[0]))
		return c.ret(nil)
	})
	boolSlice := func(c *CallCtx, v Value) []*Term {
		sl := v.(SliceV)
		var ts []*Term
		if sl.obj != 0 {
			av := c.st.heap.objs[sl.obj].(*ArrayV)
			for i := 0; i < sl.len; i++ {
				ts = append(ts, av.e[sl.off+i].(*Term))
			}
		}
		return ts
	}
	r(vnPkg+".And", func(c *CallCtx) []Outcome { return c.ret(And(boolSlice(c, c.args[0])...)) })
	r(vnPkg+".Or", func(c *CallCtx) []Outcome { return c.ret(Or(boolSlice(c, c.args[0])...)) })
	r(vnPkg+".Implies", func(c *CallCtx) []Outcome {
		return c.ret(Implies(c.args[0].(*Term), c.args[1].(*Term)))
	})
	r(vnPkg+".Spawn", func(c *CallCtx) []Outcome {
		c.e.spawn(c.st, mustConstStr(c.args[0]), c.args[1], nil)
		return c.ret(nil)
	})
	r(vnPkg+".Yield", func(c *CallCtx) []Outcome { return c.e.yield(c, mustConstStr(c.args[0])) })
	r(vnPkg+".RunAll", func(c *CallCtx) []Outcome { return c.e.runAll(c) })

	// ---- builtins
	r("builtin:len", func(c *CallCtx) []Outcome { return c.ret(c.e.builtinLen(c.st, c.args[0])) })
	r("builtin:cap", func(c *CallCtx) []Outcome {
		switch a := c.args[0].(type) {
		case SliceV:
			return c.ret(I(int64(a.cap)))
		case BytesV:
			return c.ret(sLen(a.s))
		}
		unm("cap of %T", c.args[0])
		return nil
	})
	r("builtin:append", func(c *CallCtx) []Outcome { return c.ret(c.e.builtinAppend(c.st, c.args[0], c.args[1])) })
	r("builtin:delete", func(c *CallCtx) []Outcome {
		m := c.args[0].(MapV)
		if m.obj == 0 {
			return c.ret(nil)
		}
		c.st.recordAccess(c.e, Ptr{obj: m.obj}, true, c.pos)
		var outs []Outcome
		for _, s := range c.e.mapDelete(c.st, m.obj, c.args[1]) {
			outs = append(outs, Outcome{st: s})
		}
		return outs
	})
	r("builtin:close", func(c *CallCtx) []Outcome {
		ch, ok := c.args[0].(ChanV)
		if !ok || ch.obj == 0 {
			return c.panicOut("close-of-nil-channel")
		}
		if av, ok := c.st.heap.objs[ch.obj].(*ArrayV); ok && len(av.e) == 1 {
			return c.panicOut("close-of-closed-channel")
		}
		c.st.heap.objs[ch.obj] = &ArrayV{e: []Value{tTrue}}
		return c.ret(nil)
	})
	r("builtin:print", func(c *CallCtx) []Outcome { return c.ret(nil) })
	r("builtin:println", func(c *CallCtx) []Outcome { return c.ret(nil) })
	r("builtin:copy", func(c *CallCtx) []Outcome {
		dst, ok1 := c.args[0].(SliceV)
		src, ok2 := c.args[1].(SliceV)
		if !ok1 || !ok2 {
			unm("copy on %T,%T", c.args[0], c.args[1])
		}
		n := dst.len
		if src.len < n {
			n = src.len
		}
		if n > 0 {
			sa := c.st.heap.objs[src.obj].(*ArrayV)
			vals := append([]Value(nil), sa.e[src.off:src.off+n]...)
			da := c.st.heap.objs[dst.obj].(*ArrayV)
			nd := &ArrayV{e: append([]Value(nil), da.e...)}
			copy(nd.e[dst.off:], vals)
			c.st.heap.objs[dst.obj] = nd
		}
		return c.ret(I(int64(n)))
	})
	r("builtin:ssa:wrapnilchk", func(c *CallCtx) []Outcome {
		if p, ok := c.args[0].(Ptr); ok && p.IsNil() {
			return c.panicOut("nil-deref-wrapper")
		}
		return c.ret(c.args[0])
	})
	r("builtin:min", func(c *CallCtx) []Outcome {
		v := c.args[0].(*Term)
		for _, a := range c.args[1:] {
			v = Ite(Lt(a.(*Term), v), a.(*Term), v)
		}
		return c.ret(v)
	})
	r("builtin:max", func(c *CallCtx) []Outcome {
		v := c.args[0].(*Term)
		for _, a := range c.args[1:] {
			v = Ite(Gt(a.(*Term), v), a.(*Term), v)
		}
		return c.ret(v)
	})

	e.registerStdlib()
	e.registerDomain()
}

func (c *CallCtx) panicOut(kind string) []Outcome {
	c.e.doPanic(c.st, nil, kind, c.pos)
	return nil
}

func mustConstStr(v Value) string {
	s, ok := v.(*Str)
	if !ok {
		unm("expected string, got %T", v)
	}
	c, ok := s.Const()
	if !ok {
		unm("expected constant string")
	}
	return c
}

func mustConstInt(v Value) int {
	t, ok := v.(*Term)
	if !ok {
		unm("expected int, got %T", v)
	}
	c, ok := t.ConstInt()
	if !ok {
		unm("expected constant int")
	}
	return int(c)
}

func (e *Engine) builtinLen(st *State, v Value) Value {
	switch a := v.(type) {
	case *Str:
		return sLen(a)
	case SliceV:
		return I(int64(a.len))
	case BytesV:
		return sLen(a.s)
	case MapV:
		if a.obj == 0 {
			return I(0)
		}
		return I(int64(len(st.heap.objs[a.obj].(*MapObj).entries)))
	case *ArrayV:
		return I(int64(len(a.e)))
	case Ptr:
		if av, ok := st.load(a).(*ArrayV); ok {
			return I(int64(len(av.e)))
		}
	case ChanV:
		return I(0)
	}
	unm("len of %T", v)
	return nil
}

func (e *Engine) builtinAppend(st *State, a, b Value) Value {
	switch x := a.(type) {
	case BytesV:
		switch y := b.(type) {
		case *Str:
			return BytesV{s: sConcat(x.s, y), isNil: x.isNil && sCap(y) == 0}
		case BytesV:
			return BytesV{s: sConcat(x.s, y.s), isNil: x.isNil && y.isNil}
		case SliceV:
			return BytesV{s: sConcat(x.s, st.bytesSliceToStr(y))}
		}
	case SliceV:
		var add []Value
		switch y := b.(type) {
		case SliceV:
			if y.obj != 0 {
				add = st.heap.objs[y.obj].(*ArrayV).e[y.off : y.off+y.len]
			}
		case BytesV:
			if c, ok := y.s.Const(); ok && c == "" {
				return x
			}
			unm("append of byte string to array-backed slice")
		default:
			unm("append %T to slice", b)
		}
		if len(add) == 0 {
			return x
		}
		if x.obj != 0 && x.len+len(add) <= x.cap {
			av := st.heap.objs[x.obj].(*ArrayV)
			nv := &ArrayV{e: append([]Value(nil), av.e...)}
			copy(nv.e[x.off+x.len:], add)
			st.heap.objs[x.obj] = nv
			return SliceV{obj: x.obj, off: x.off, len: x.len + len(add), cap: x.cap}
		}
		var old []Value
		if x.obj != 0 {
			old = st.heap.objs[x.obj].(*ArrayV).e[x.off : x.off+x.len]
		}
		nv := &ArrayV{e: append(append([]Value(nil), old...), add...)}
		return SliceV{obj: st.newObj(nv), len: len(nv.e), cap: len(nv.e)}
	}
	unm("append on %T", a)
	return nil
}

// ---------------------------------------------------------------- assertions, covers, findings

func (e *Engine) assertCond(st *State, label string, cond *Term, where string) {
	if e.concrete != nil {
		fmt.Fprintf(os.Stderr, "CONCRETE assert %s at %s: %s\n", label, where, cond)
	}
	atomic.AddInt64(&e.stats.Obligations, 1)
	e.mu.Lock()
	e.oblLabels["assert:"+label]++
	e.mu.Unlock()
	if cond.IsTrue() {
		atomic.AddInt64(&e.stats.Discharged, 1)
		return
	}
	r := st.check(Not(cond))
	switch r {
	case Unsat:
		atomic.AddInt64(&e.stats.Discharged, 1)
		e.dumpObligation(st, label, Not(cond))
		st.assume(cond)
	case Sat:
		e.reportFinding(st, label, "assert", where, Not(cond))
		if cond.IsFalse() || st.check(cond) == Unsat {
			e.endPath(st)
			return
		}
		st.assume(cond)
	default:
		atomic.AddInt64(&e.stats.UnknownObl, 1)
		e.inconclusive("solver unknown on assertion " + label)
		st.assume(cond)
	}
}

func (e *Engine) coverCond(st *State, label string, cond *Term) {
	e.mu.Lock()
	_, have := e.covers[label]
	e.mu.Unlock()
	if have || cond.IsFalse() {
		return
	}
	if st.check(cond) != Sat {
		return
	}
	f := e.buildFinding(st, label, "cover", "", cond)
	e.mu.Lock()
	if _, have := e.covers[label]; !have {
		e.covers[label] = f
	}
	e.mu.Unlock()
}

func (e *Engine) buildFinding(st *State, label, kind, where string, extra *Term) *Finding {
	f := &Finding{Harness: st.harness, Label: label, Kind: kind, Where: where,
		Tags: append([]string(nil), st.tags...), Events: append([]string(nil), st.events...), Sched: append([]string(nil), st.sched...), Bounds: map[string]int{}}
	for k, v := range e.bounds {
		f.Bounds[k] = v
	}
	// model
	var terms []*Term
	for _, in := range st.inputs {
		switch in.Kind {
		case "bool", "int", "time":
			terms = append(terms, in.T)
		case "string":
			for _, p := range in.S.p {
				if !p.isConst() {
					terms = append(terms, p.n)
				}
			}
		}
	}
	st.slv.Sync(st.pc.Slice())
	res, vals := st.slv.CheckModel(extra, terms, func(v map[int]*big.Int) []*Term {
		var more []*Term
		for _, in := range st.inputs {
			if in.Kind != "string" {
				continue
			}
			for _, p := range in.S.p {
				if p.isConst() {
					continue
				}
				n := v[p.n.id]
				if n == nil {
					continue
				}
				for i := int64(0); i < n.Int64() && i < int64(p.cap); i++ {
					more = append(more, pieceByte(p, I(i)))
				}
			}
		}
		return more
	})
	if res != Sat {
		e.inconclusive("could not obtain a model for " + label)
		return f
	}
	for _, in := range st.inputs {
		ci := CexInput{Name: in.Name, Kind: in.Kind}
		switch in.Kind {
		case "bool":
			if v := vals[in.T.id]; v != nil {
				ci.Bool = v.Sign() != 0
			}
		case "int", "time":
			if v := vals[in.T.id]; v != nil {
				ci.Int = v.String()
			} else {
				ci.Int = "0"
			}
		case "string":
			var bs []byte
			for _, p := range in.S.p {
				if p.isConst() {
					bs = append(bs, p.c...)
					continue
				}
				n := vals[p.n.id]
				if n == nil {
					continue
				}
				for i := int64(0); i < n.Int64() && i < int64(p.cap); i++ {
					b := vals[pieceByte(p, I(i)).id]
					if b == nil {
						bs = append(bs, 'a')
					} else {
						bs = append(bs, byte(b.Int64()))
					}
				}
			}
			ci.Bytes = bs
			if ci.Bytes == nil {
				ci.Bytes = []byte{}
			}
		case "choice", "order":
			ci.Pick = in.Pick
		}
		f.Inputs = append(f.Inputs, ci)
	}
	return f
}

func (e *Engine) reportFinding(st *State, label, kind, where string, extra *Term) {
	sig := st.harness + "|" + label + "|" + strings.Join(st.tags, ">")
	if kind == "panic" || strings.HasPrefix(label, "lock-discipline/shared-") {
		sig += "|" + where
	}
	e.mu.Lock()
	n := 0
	for _, f := range e.findings {
		if f.Sig == sig {
			n++
		}
	}
	e.mu.Unlock()
	if n >= e.maxFind {
		return
	}
	f := e.buildFinding(st, label, kind, where, extra)
	f.Sig = sig
	e.mu.Lock()
	e.findings = append(e.findings, *f)
	e.mu.Unlock()
}

// ---------------------------------------------------------------- threads

func (e *Engine) yield(c *CallCtx, point string) []Outcome {
	if len(c.st.threads) > 1 && c.st.cur != 0 {
		c.st.wantYield = point
	}
	return c.ret(nil)
}

// pickThreadRecorded forks over the runnable threads and records the pick as a "sched" choice.
func (e *Engine) pickThreadRecorded(st *State, point string) []*State {
	var live []int
	for i, t := range st.threads {
		if i == 0 {
			continue
		}
		if !t.done && len(t.frames) > 0 {
			live = append(live, i)
		}
	}
	if len(live) == 0 {
		st.cur = 0
		return []*State{st}
	}
	var out []*State
	for k, i := range live {
		s := st
		if k < len(live)-1 {
			s = st.clone()
		}
		s.cur = i
		if len(live) > 1 {
			s.inputs = append(s.inputs, InputRec{Name: "sched", Kind: "choice", Pick: k})
		}
		s.sched = append(s.sched, s.threads[i].name+"@"+point)
		out = append(out, s)
	}
	if len(out) > 1 {
		atomic.AddInt64(&e.stats.Forks, int64(len(out)-1))
	}
	return out
}

func (e *Engine) runAll(c *CallCtx) []Outcome {
	// The main thread waits until every spawned thread has finished; the scheduler (run loop)
	// picks among the live spawned threads at RunAll, at every Yield and at every thread exit.
	c.st.wantYield = "runall"
	return c.ret(nil)
}

var _ = strconv.Itoa
var _ = fmt.Sprintf
var _ ssa.Value
var _ types.Type

// dumpObligation writes a discharged obligation (path condition ∧ ¬property, found unsat by the
// working solver) as a stand-alone SMT-LIB2 script, so that the driver can put the same question
// to z3 5.x and cvc5 afterwards. At most crossMax scripts per assertion label.
func (e *Engine) dumpObligation(st *State, label string, neg *Term) {
	if e.crossDir == "" {
		return
	}
	e.mu.Lock()
	n := e.crossN[label]
	if n >= e.crossMax {
		e.mu.Unlock()
		return
	}
	e.crossN[label] = n + 1
	e.mu.Unlock()
	e.writeScript(st, fmt.Sprintf("%s-%d", sanitize(label), n), neg)
}

func (e *Engine) writeScript(st *State, name string, neg *Term) {
	pc := st.pc.Slice()
	d := &declSet{vars: map[string]Sort{}, ufs: map[string]string{}}
	seen := map[int]bool{}
	for _, t := range pc {
		collectDecls(t, seen, d)
	}
	collectDecls(neg, seen, d)
	var sb strings.Builder
	sb.WriteString("(set-logic ALL)\n")
	for _, k := range keysOf(d.vars) {
		fmt.Fprintf(&sb, "(declare-const %s %s)\n", k, d.vars[k])
	}
	for _, k := range keysOf(d.ufs) {
		fmt.Fprintf(&sb, "(declare-fun %s %s)\n", k, d.ufs[k])
	}
	for _, t := range pc {
		sb.WriteString("(assert " + smt(t) + ")\n")
	}
	sb.WriteString("(assert " + smt(neg) + ")\n(check-sat)\n")
	os.WriteFile(filepath.Join(e.crossDir, name+".smt2"), []byte(sb.String()), 0o644)
}

func keysOf[V any](m map[string]V) []string {
	out := make([]string, 0, len(m))
	for k := range m {
		out = append(out, k)
	}
	sort.Strings(out)
	return out
}
