package main

import (
	"context"
	"encoding/json"
	"flag"
	"fmt"
	"os"
	"os/exec"
	"path/filepath"
	"runtime"
	"sort"
	"strings"
	"sync"
	"time"
)

// PropSpec describes how one property is checked (file /verif/props/<ID>.json).
type PropSpec struct {
	ID        string                    `json:"id"`
	Patterns  []string                  `json:"patterns"`
	Harnesses []HarnessSpec             `json:"harnesses"`
	Bounds    map[string]map[string]int `json:"bounds"` // tier -> bound name -> value
	PanicMode string                    `json:"panic_mode"`
	Unwind    int                       `json:"unwind"`
	Assume    []string                  `json:"assumptions"`
	Outside   []string                  `json:"outside"`
	Audit     bool                      `json:"audit"`
	// Levels: the thorough tier first decides the quick bounds (strictly: anything inconclusive there
	// is a failure of the check) and then re-runs every harness under each of these deeper bound
	// sets in turn, each within "budget-s" seconds. A level that does not finish (time, unwinding,
	// solver unknown) is abandoned and reported as such: the claim is the deepest level completed.
	// Findings met on the way count whether or not their level completed (they are replayed).
	Levels []map[string]int `json:"thorough_levels"`
}

// LevelRun records what one (harness, level) run covered.
type LevelRun struct {
	Harness   string         `json:"harness"`
	Level     int            `json:"level"`
	Bounds    map[string]int `json:"bounds"`
	Completed bool           `json:"completed"`
	WallS     float64        `json:"wall_s"`
	Paths     int64          `json:"paths_completed"`
	Reason    []string       `json:"abandoned_because,omitempty"`
}

type HarnessSpec struct {
	Pkg    string   `json:"pkg"` // relative to the module, e.g. internal/server
	Func   string   `json:"func"`
	Covers []string `json:"covers"`
	Tier   string   `json:"tier"` // "" both, "thorough" only thorough
	// NoWitness: the native twin of this harness is a different program (an attack, a race run):
	// its cover witnesses are not replayed
	NoWitness bool `json:"no_witness"`
}

type KnownFinding struct {
	Property string `json:"property"`
	Status   string `json:"status"` // known | fixed
	Harness  string `json:"harness"`
	Label    string `json:"label"`
	Tags     string `json:"tags"`
	What     string `json:"what"`
	Commit   string `json:"commit,omitempty"`
}

func main() {
	var (
		verifDir = flag.String("verif", "/verif", "verification directory")
		repoDir  = flag.String("repo", "/repo", "repository under verification")
		prop     = flag.String("prop", "", "property id")
		tier     = flag.String("tier", "quick", "quick|thorough")
		only     = flag.String("only", "", "run only this harness function")
		workers  = flag.Int("workers", runtime.NumCPU(), "parallel workers")
		verbose  = flag.Bool("v", false, "verbose (keep solver transcripts)")
		noReplay = flag.Bool("noreplay", false, "skip native replay")
		replay   = flag.String("replay", "", "replay the given counterexample file natively and exit")
	)
	flag.Parse()
	if t := os.Getenv("VERIF_TIER"); t != "" && !isFlagSet("tier") {
		*tier = t
	}
	seed := 0
	fmt.Sscan(os.Getenv("VERIF_SEED"), &seed)
	d := &Driver{verif: *verifDir, repo: *repoDir, tier: *tier, workers: *workers, verbose: *verbose, noReplay: *noReplay, seed: seed, only: *only}
	repoRoot = strings.TrimSuffix(*repoDir, "/")
	if *replay != "" {
		os.Exit(d.replayFile(*replay))
	}
	if *prop == "" {
		fmt.Fprintln(os.Stderr, "usage: gosym -prop <ID> [-tier quick|thorough]")
		os.Exit(2)
	}
	os.Exit(d.check(*prop))
}

// repoRoot is the tree being verified (positions are reported relative to it).
var repoRoot = "/repo"

func isFlagSet(name string) bool {
	set := false
	flag.Visit(func(f *flag.Flag) {
		if f.Name == name {
			set = true
		}
	})
	return set
}

type Driver struct {
	verif, repo, tier string
	workers           int
	verbose, noReplay bool
	seed              int
	only              string
	work              string
	overlay           map[string][]byte
	overlayJSON       string
	levelRuns         []LevelRun
	cross             *CrossResult
}

func (d *Driver) buildOverlay() error {
	d.overlay = map[string][]byte{}
	repl := map[string]string{}
	root := filepath.Join(d.verif, "harness")
	pkgsWithHarness := map[string]string{}
	err := filepath.Walk(root, func(p string, info os.FileInfo, err error) error {
		if err != nil || info.IsDir() || !strings.HasSuffix(p, ".go") {
			return err
		}
		rel, _ := filepath.Rel(root, p)
		var target string
		if strings.HasPrefix(rel, "vn/") {
			target = filepath.Join(d.repo, "internal", rel)
		} else {
			target = filepath.Join(d.repo, rel)
		}
		b, err := os.ReadFile(p)
		if err != nil {
			return err
		}
		d.overlay[target] = b
		repl[target] = p
		if !strings.HasPrefix(rel, "vn/") && !strings.HasSuffix(rel, "_test.go") {
			dir := filepath.Dir(rel)
			for _, line := range strings.Split(string(b), "\n") {
				if strings.HasPrefix(line, "package ") {
					pkgsWithHarness[dir] = strings.TrimSpace(strings.TrimPrefix(line, "package "))
					break
				}
			}
		}
		return nil
	})
	if err != nil {
		return err
	}
	// generated replay tests, one per package with harnesses
	for dir, pkgName := range pkgsWithHarness {
		src := fmt.Sprintf(replayTestTemplate, pkgName)
		f := filepath.Join(d.work, "replay_"+strings.ReplaceAll(dir, "/", "_")+"_test.go")
		if err := os.WriteFile(f, []byte(src), 0o644); err != nil {
			return err
		}
		repl[filepath.Join(d.repo, dir, "zz_verif_replay_test.go")] = f
	}
	b, _ := json.Marshal(map[string]interface{}{"Replace": repl})
	d.overlayJSON = filepath.Join(d.work, "overlay.json")
	return os.WriteFile(d.overlayJSON, b, 0o644)
}

const replayTestTemplate = `package %s

import (
	"encoding/json"
	"os"
	"testing"

	"github.com/istio-ecosystem/authservice/internal/vn"
)

func TestVerifReplay(t *testing.T) {
	if err := vn.Load(os.Getenv("VERIF_CEX")); err != nil {
		t.Fatalf("load cex: %%v", err)
	}
	h, ok := verifHarnesses[vn.HarnessName()]
	if !ok {
		t.Fatalf("unknown harness %%s", vn.HarnessName())
	}
	res := vn.Run(h)
	b, _ := json.Marshal(res)
	if err := os.WriteFile(os.Getenv("VERIF_OUT"), b, 0o644); err != nil {
		t.Fatal(err)
	}
}
`

type ReplayResult struct {
	Failed   []string `json:"failed"`
	Covered  []string `json:"covered"`
	Aborted  string   `json:"aborted"`
	Panic    string   `json:"panic"`
	Consumed int      `json:"consumed"`
	Err      string   `json:"err,omitempty"`
	Race     bool     `json:"race,omitempty"`
}

// replayNative runs the harness natively with the counterexample.
func (d *Driver) replayNative(pkgRel, cexPath string, race bool) (r ReplayResult) {
	out := cexPath + ".result.json"
	os.Remove(out)
	args := []string{"test", "-vet=off", "-count=1", "-overlay", d.overlayJSON, "-run", "^TestVerifReplay$"}
	if race {
		args = append(args, "-race")
	}
	args = append(args, "./"+pkgRel+"/")
	cmd := exec.Command("go", args...)
	cmd.Dir = d.repo
	cmd.Env = append(os.Environ(), "GOFLAGS=-mod=mod", "GOPROXY=off", "VERIF_CEX="+cexPath, "VERIF_OUT="+out)
	b, err := cmd.CombinedOutput()
	defer func() { r.Race = strings.Contains(string(b), "DATA RACE") || strings.Contains(string(b), "concurrent map") }()
	rb, rerr := os.ReadFile(out)
	if rerr != nil {
		r.Err = fmt.Sprintf("replay produced no result: %v\n%s", err, tail(string(b), 2000))
		return r
	}
	json.Unmarshal(rb, &r)
	return r
}

func tail(s string, n int) string {
	if len(s) > n {
		return s[len(s)-n:]
	}
	return s
}

type cexOut struct {
	Harness string            `json:"harness"`
	Pkg     string            `json:"pkg"`
	Label   string            `json:"label"`
	Kind    string            `json:"kind"`
	Where   string            `json:"where,omitempty"`
	Tags    []string          `json:"tags,omitempty"`
	Sched   []string          `json:"schedule,omitempty"`
	Inputs  []CexInput        `json:"inputs"`
	Bounds  map[string]int    `json:"bounds"`
	Extra   map[string]string `json:"extra,omitempty"`
}

func (d *Driver) replayFile(path string) int {
	b, err := os.ReadFile(path)
	if err != nil {
		fmt.Fprintln(os.Stderr, err)
		return 2
	}
	var c cexOut
	if err := json.Unmarshal(b, &c); err != nil {
		fmt.Fprintln(os.Stderr, err)
		return 2
	}
	d.work, _ = os.MkdirTemp(filepath.Join(d.verif, ".work"), "replay-")
	defer os.RemoveAll(d.work)
	if err := d.buildOverlay(); err != nil {
		fmt.Fprintln(os.Stderr, err)
		return 2
	}
	abs, _ := filepath.Abs(path)
	r := d.replayNative(c.Pkg, abs, false)
	rb, _ := json.MarshalIndent(r, "", " ")
	fmt.Println(string(rb))
	if contains(r.Failed, c.Label) || (c.Kind == "panic" && r.Panic != "") {
		fmt.Printf("REPRODUCED label=%s\n", c.Label)
		return 1
	}
	fmt.Println("NOT REPRODUCED")
	return 0
}

func contains(xs []string, x string) bool {
	for _, y := range xs {
		if y == x {
			return true
		}
	}
	return false
}

func (d *Driver) check(id string) int {
	t0 := time.Now()
	os.MkdirAll(filepath.Join(d.verif, ".work"), 0o755)
	var err error
	d.work, err = os.MkdirTemp(filepath.Join(d.verif, ".work"), id+"-")
	if err != nil {
		fmt.Fprintln(os.Stderr, err)
		return 2
	}
	if !d.verbose {
		defer os.RemoveAll(d.work)
	}
	sb, err := os.ReadFile(filepath.Join(d.verif, "props", id+".json"))
	if err != nil {
		fmt.Fprintln(os.Stderr, err)
		return 2
	}
	var spec PropSpec
	if err := json.Unmarshal(sb, &spec); err != nil {
		fmt.Fprintln(os.Stderr, "spec:", err)
		return 2
	}
	var known []KnownFinding
	if kb, err := os.ReadFile(filepath.Join(d.verif, "known_findings.json")); err == nil {
		if err := json.Unmarshal(kb, &known); err != nil {
			fmt.Fprintln(os.Stderr, "known_findings.json:", err)
			return 2
		}
	}
	if err := d.buildOverlay(); err != nil {
		fmt.Fprintln(os.Stderr, err)
		return 2
	}
	patterns := spec.Patterns
	if len(patterns) == 0 {
		patterns = []string{"./internal/..."}
	}
	eng, err := LoadProgram(d.repo, d.overlay, patterns)
	if err != nil {
		fmt.Fprintln(os.Stderr, "load:", err)
		return d.finish(id, spec, nil, t0, []string{"LOAD " + err.Error()}, nil, nil, 2)
	}
	loadS := time.Since(t0).Seconds()
	eng.verbose = d.verbose
	if spec.PanicMode != "" {
		eng.panicMode = spec.PanicMode
	}
	if spec.Unwind > 0 {
		eng.unwind = spec.Unwind
	}
	eng.audit = spec.Audit
	// bound sets: level 0 is the tier's own; the thorough tier with levels starts from the quick bounds
	setBounds := func(level int) {
		eng.bounds = map[string]int{}
		base := d.tier
		if d.tier == "thorough" && len(spec.Levels) > 0 {
			base = "quick"
		}
		for _, tr := range []string{"all", base} {
			for k, v := range spec.Bounds[tr] {
				eng.bounds[k] = v
			}
		}
		eng.deadline = 0
		if v, ok := eng.bounds["deadline-s"]; ok {
			eng.deadline = time.Duration(v) * time.Second
			if base != d.tier {
				eng.deadline *= 3
			}
		}
		if level > 0 {
			for k, v := range spec.Levels[level-1] {
				eng.bounds[k] = v
			}
			delete(eng.bounds, "deadline-s")
			b := eng.bounds["budget-s"]
			if b == 0 {
				b = 900
			}
			eng.deadline = time.Duration(b) * time.Second
		}
	}
	setBounds(0)
	if !d.noReplay && eng.concrete == nil {
		eng.crossDir = filepath.Join(d.work, "cross")
		os.MkdirAll(eng.crossDir, 0o755)
		eng.crossN = map[string]int{}
		gCross = eng
		eng.crossMax = 2
		if d.tier == "thorough" {
			eng.crossMax = 8
		}
	}
	if v, ok := eng.bounds["solver-timeout-ms"]; ok {
		eng.solverTO = v
	}
	if cx := os.Getenv("GOSYM_CONCRETE"); cx != "" {
		var c cexOut
		b, err := os.ReadFile(cx)
		if err == nil && json.Unmarshal(b, &c) == nil {
			eng.concrete = map[string][]CexInput{}
			for _, in := range c.Inputs {
				eng.concrete[in.Name] = append(eng.concrete[in.Name], in)
			}
			d.only = c.Harness
		}
	}
	slv, err := NewSolver("z3", eng.solverTO, "")
	if err != nil {
		fmt.Fprintln(os.Stderr, "solver:", err)
		return 2
	}
	if err := eng.initPackages(slv); err != nil {
		slv.Close()
		fmt.Fprintln(os.Stderr, "init:", err)
		return d.finish(id, spec, eng, t0, []string{"INIT " + err.Error()}, nil, nil, 2)
	}
	slv.Close()

	var incon []string
	var levelRuns []LevelRun
	wantCovers := map[string]string{}
	for _, h := range spec.Harnesses {
		if h.Tier == "thorough" && d.tier != "thorough" {
			continue
		}
		if d.only != "" && h.Func != d.only {
			continue
		}
		for _, c := range h.Covers {
			wantCovers[c] = h.Func
		}
		nLevels := 0
		if d.tier == "thorough" && eng.concrete == nil {
			nLevels = len(spec.Levels)
			// VERIF_MAX_LEVEL=k stops the deepening after level k (development aid)
			if v := os.Getenv("VERIF_MAX_LEVEL"); v != "" {
				k := 0
				fmt.Sscan(v, &k)
				if k < nLevels {
					nLevels = k
				}
			}
		}
		for level := 0; level <= nLevels; level++ {
			setBounds(level)
			hs := time.Now()
			nIncon, p0 := len(eng.incon), eng.stats.Paths
			if err := eng.RunHarness(modPath+"/"+h.Pkg, h.Func, d.workers, d.work); err != nil {
				eng.inconclusive("ENGINE " + err.Error())
			}
			lr := LevelRun{Harness: h.Func, Level: level, Bounds: map[string]int{}, Completed: len(eng.incon) == nIncon, WallS: time.Since(hs).Seconds(), Paths: eng.stats.Paths - p0}
			for k, v := range eng.bounds {
				lr.Bounds[k] = v
			}
			if level > 0 && !lr.Completed {
				// a deeper level that did not finish is a reduced bound, not a failed check
				lr.Reason = append(lr.Reason, eng.incon[nIncon:]...)
				eng.incon = eng.incon[:nIncon]
			}
			levelRuns = append(levelRuns, lr)
			if d.verbose {
				fmt.Fprintf(os.Stderr, "harness %s level %d: %.1fs completed=%v states=%d paths=%d\n", h.Func, level, time.Since(hs).Seconds(), lr.Completed, eng.stats.States, eng.stats.Paths)
			}
			if !lr.Completed {
				break
			}
		}
	}
	setBounds(0)
	if d.verbose {
		type kv struct {
			k string
			v int
		}
		var kvs []kv
		for k, v := range eng.pathHist {
			kvs = append(kvs, kv{k, v})
		}
		sort.Slice(kvs, func(i, j int) bool { return kvs[i].v > kvs[j].v })
		var fks []kv
		for k, v := range eng.forkHist {
			fks = append(fks, kv{k, v})
		}
		sort.Slice(fks, func(i, j int) bool { return fks[i].v > fks[j].v })
		for i, x := range fks {
			if i >= 30 {
				break
			}
			fmt.Fprintf(os.Stderr, "FORKS %6d  %s\n", x.v, x.k)
		}
		fmt.Fprintf(os.Stderr, "distinct choice combinations: %d\n", len(kvs))
		for i, x := range kvs {
			if i >= 25 {
				break
			}
			fmt.Fprintf(os.Stderr, "%6d  %s\n", x.v, x.k)
		}
	}
	d.levelRuns = levelRuns
	incon = append(incon, eng.incon...)
	for c, h := range wantCovers {
		if _, ok := eng.covers[c]; !ok {
			incon = append(incon, fmt.Sprintf("VACUOUS cover %q of %s was not reached", c, h))
		}
	}
	sort.Strings(incon)

	// findings: group by signature, replay one per group
	pkgOf := map[string]string{}
	for _, h := range spec.Harnesses {
		pkgOf[h.Func] = h.Pkg
	}
	cexDir := filepath.Join(d.verif, "evidence", "cex")
	os.MkdirAll(cexDir, 0o755)
	old, _ := filepath.Glob(filepath.Join(cexDir, id+"-*.json"))
	for _, f := range old {
		os.Remove(f)
	}
	type group struct {
		f        Finding
		cands    []Finding
		cexPath  string
		status   string // confirmed, unconfirmed, known
		what     string
		replayed ReplayResult
	}
	var groups []*group
	bySig := map[string]*group{}
	for _, f := range eng.findings {
		if g, ok := bySig[f.Sig]; ok {
			g.cands = append(g.cands, f)
			continue
		}
		g := &group{f: f, cands: []Finding{f}}
		bySig[f.Sig] = g
		groups = append(groups, g)
	}
	sort.Slice(groups, func(i, j int) bool { return groups[i].f.Sig < groups[j].f.Sig })
	violations := 0
	validated := 0
	var lines []string
	for i, g := range groups {
		// several counterexamples may have been recorded for one obligation (label, tags): they are
		// replayed in turn until one reproduces -- a stub that over-approximates (an uninterpreted
		// regexp match, say) can make the first model one the real code does not follow
		for ci, cand := range g.cands {
			g.f = cand
			c := cexOut{Harness: g.f.Harness, Pkg: pkgOf[g.f.Harness], Label: g.f.Label, Kind: g.f.Kind, Where: g.f.Where, Tags: g.f.Tags, Sched: g.f.Sched, Inputs: g.f.Inputs, Bounds: g.f.Bounds}
			g.cexPath = filepath.Join(cexDir, fmt.Sprintf("%s-%s-%d.json", id, sanitize(g.f.Label), i))
			cb, _ := json.MarshalIndent(c, "", " ")
			os.WriteFile(g.cexPath, cb, 0o644)
			if d.noReplay {
				g.status = "unreplayed"
				break
			}
			isLockset := strings.HasPrefix(g.f.Label, "lock-discipline/")
			g.replayed = d.replayNative(c.Pkg, g.cexPath, isLockset)
			switch {
			case isLockset && g.replayed.Race:
				g.status = "confirmed"
			case g.replayed.Err != "":
				g.status = "unconfirmed"
				g.what = g.replayed.Err
			case g.f.Kind == "panic" && g.replayed.Panic != "":
				g.status = "confirmed"
			case contains(g.replayed.Failed, g.f.Label):
				g.status = "confirmed"
			default:
				g.status = "unconfirmed"
				g.what = fmt.Sprintf("native replay did not fail %q (failed=%v aborted=%q panic=%q; %d candidate(s) tried)", g.f.Label, g.replayed.Failed, g.replayed.Aborted, g.replayed.Panic, ci+1)
			}
			if g.status == "confirmed" {
				validated++
				break
			}
		}
		// known findings
		for _, k := range known {
			if k.Status == "known" && k.Property == id && k.Harness == g.f.Harness && k.Label == g.f.Label && (k.Tags == "" || k.Tags == strings.Join(g.f.Tags, ">")) {
				if g.status == "confirmed" || g.status == "unreplayed" {
					g.status = "known"
					g.what = k.What
				}
			}
		}
		switch g.status {
		case "confirmed", "unreplayed":
			violations++
			lines = append(lines, fmt.Sprintf("VIOLATION property=%s replay=%s label=%s harness=%s", id, g.cexPath, g.f.Label, g.f.Harness))
		case "known":
			lines = append(lines, fmt.Sprintf("KNOWN-FINDING: property=%s %s (replay=%s)", id, g.what, g.cexPath))
		case "unconfirmed":
			incon = append(incon, fmt.Sprintf("UNCONFIRMED %s/%s: %s (cex %s)", g.f.Harness, g.f.Label, g.what, g.cexPath))
		}
	}
	// witness replay of covers (validation of the translator)
	if !d.noReplay && (d.tier == "thorough" || eng.bounds["witness-replay"] > 0) {
		var labels []string
		for l := range eng.covers {
			labels = append(labels, l)
		}
		sort.Strings(labels)
		maxW := eng.bounds["witness-replay"]
		if maxW == 0 || d.tier == "thorough" {
			maxW = 1000 // the thorough tier replays every cover witness
		}
		noWitness := map[string]bool{}
		for _, h := range spec.Harnesses {
			if h.NoWitness {
				noWitness[h.Func] = true
			}
		}
		knownLabel := map[string]bool{}
		for _, k := range known {
			if k.Status == "known" && k.Property == id {
				knownLabel[k.Label] = true
			}
		}
		done := 0
		for i, l := range labels {
			if done >= maxW {
				break
			}
			f := eng.covers[l]
			if noWitness[f.Harness] {
				continue
			}
			done++
			c := cexOut{Harness: f.Harness, Pkg: pkgOf[f.Harness], Label: l, Kind: "cover", Inputs: f.Inputs, Bounds: f.Bounds}
			p := filepath.Join(d.work, fmt.Sprintf("cover-%d.json", i))
			cb, _ := json.Marshal(c)
			os.WriteFile(p, cb, 0o644)
			r := d.replayNative(c.Pkg, p, false)
			unexpected := 0
			for _, fl := range r.Failed {
				if !knownLabel[fl] {
					unexpected++
				}
			}
			if r.Err == "" && contains(r.Covered, l) && unexpected == 0 && r.Panic == "" {
				validated++
			} else {
				keep := filepath.Join(cexDir, fmt.Sprintf("%s-witness-%s.json", id, sanitize(l)))
				os.WriteFile(keep, cb, 0o644)
				incon = append(incon, fmt.Sprintf("WITNESS-MISMATCH cover %q: native covered=%v failed=%v aborted=%q panic=%q err=%q (cex %s)", l, r.Covered, r.Failed, r.Aborted, r.Panic, tail(r.Err, 300), keep))
			}
		}
	}
	if eng.crossDir != "" {
		d.cross = crossCheck(eng.crossDir, d.workers)
		for _, dis := range d.cross.Disagree {
			incon = append(incon, "SOLVER-DISAGREEMENT "+dis)
		}
	}
	for _, l := range lines {
		fmt.Println(l)
	}
	code := 0
	if violations > 0 {
		code = 1
	} else if len(incon) > 0 {
		code = 2
	}
	var samples []interface{}
	for _, g := range groups {
		samples = append(samples, map[string]interface{}{"finding": g.f.Label, "harness": g.f.Harness, "status": g.status, "where": g.f.Where, "tags": g.f.Tags, "inputs": g.f.Inputs, "cex": g.cexPath})
	}
	_ = loadS
	return d.finish(id, spec, eng, t0, incon, samples, map[string]int{"violations": violations, "validated": validated}, code)
}

func (d *Driver) finish(id string, spec PropSpec, eng *Engine, t0 time.Time, incon []string, samples []interface{}, counts map[string]int, code int) int {
	for _, s := range incon {
		fmt.Println("INCONCLUSIVE:", s)
	}
	ev := map[string]interface{}{
		"property_id": id, "tier": d.tier, "seed": d.seed, "level": "model_checking",
		"wall_s": time.Since(t0).Seconds(), "violations": counts["violations"],
	}
	cov := map[string]interface{}{}
	assumptions := append([]string{}, spec.Assume...)
	if eng != nil {
		st := eng.stats
		cov["states"] = st.States
		cov["transitions"] = st.Instrs
		cov["traces_validated_against_impl"] = counts["validated"]
		cov["paths_completed"] = st.Paths
		cov["paths_cut_at_panic"] = st.PanicCut
		cov["paths_cut_by_assume"] = st.AssumeCut
		cov["forks"] = st.Forks
		cov["obligations"] = st.Obligations
		cov["discharged"] = st.Discharged
		cov["obligations_unknown"] = st.UnknownObl
		cov["queries"] = map[string]int64{"total": gStats.Queries, "sat": gStats.Sat, "unsat": gStats.Unsat, "unknown": gStats.Unknown, "errors": gStats.Errors, "retried_after_timeout": gStats.Retries}
		cov["solver_s"] = float64(gStats.NanosSMT) / 1e9
		cov["solvers"] = []string{"z3 4.8.12 (-in, incremental, logic ALL: Int + Array Int Int)"}
		if d.cross != nil {
			cov["second_solver_check"] = d.cross
		}
		cov["functions_encoded"] = sortedKeys(eng.funcsSeen)
		cov["stubs_used"] = sortedKeys(eng.stubsSeen)
		cov["bounds"] = eng.bounds
		if len(d.levelRuns) > 0 {
			// the claim: per harness the deepest bound set it completed; for the property the deepest
			// level every harness completed
			deepest := map[string]int{}
			for _, lr := range d.levelRuns {
				if lr.Completed && lr.Level >= deepest[lr.Harness] {
					deepest[lr.Harness] = lr.Level
				}
			}
			common := -1
			for _, lr := range d.levelRuns {
				if v := deepest[lr.Harness]; common < 0 || v < common {
					common = v
				}
			}
			for _, lr := range d.levelRuns {
				if lr.Level == common && lr.Completed {
					cov["bounds"] = lr.Bounds
					break
				}
			}
			cov["level_completed_by_every_harness"] = common
			cov["levels"] = d.levelRuns
		}
		cov["obligation_labels"] = eng.oblLabels
		var cl []string
		for l := range eng.covers {
			cl = append(cl, l)
		}
		sort.Strings(cl)
		cov["covers_reached"] = cl
		assumptions = append(assumptions, sortedKeys(eng.assumes)...)
		// samples: the obligations with labels, plus findings
		for l, n := range eng.oblLabels {
			if len(samples) > 40 {
				break
			}
			samples = append(samples, map[string]interface{}{"obligation": l, "times_checked": n})
		}
		for l, f := range eng.covers {
			if len(samples) > 60 {
				break
			}
			samples = append(samples, map[string]interface{}{"cover_witness": l, "harness": f.Harness, "inputs": f.Inputs})
		}
	} else {
		cov["states"] = 0
		cov["transitions"] = 0
		cov["traces_validated_against_impl"] = 0
	}
	if len(samples) == 0 {
		samples = append(samples, map[string]interface{}{"note": "no obligation was reached"})
	}
	cov["samples"] = samples
	if incon == nil {
		incon = []string{}
	}
	outside := spec.Outside
	if outside == nil {
		outside = []string{}
	}
	cov["inconclusive"] = incon
	cov["outside_the_claim"] = outside
	cov["exhaustive"] = false
	ev["coverage"] = cov
	ev["assumptions"] = assumptions
	os.MkdirAll(filepath.Join(d.verif, "evidence"), 0o755)
	b, _ := json.MarshalIndent(ev, "", " ")
	os.WriteFile(filepath.Join(d.verif, "evidence", id+".json"), b, 0o644)
	fmt.Printf("RESULT property=%s tier=%s exit=%d wall=%.1fs\n", id, d.tier, code, time.Since(t0).Seconds())
	return code
}

// CrossResult: discharged obligations (unsat for z3 4.8.12) put again, as stand-alone scripts, to
// z3 5.x and cvc5. "sat" from either is a disagreement and makes the run inconclusive; a time-out
// of the second solver is only counted.
type CrossResult struct {
	Scripts  int            `json:"obligations_rechecked"`
	Z3New    map[string]int `json:"z3_5_1_0"`
	CVC5     map[string]int `json:"cvc5_1_0"`
	Disagree []string       `json:"disagreements"`
	WallS    float64        `json:"wall_s"`
}

func crossCheck(dir string, workers int) *CrossResult {
	t0 := time.Now()
	files, _ := filepath.Glob(filepath.Join(dir, "*.smt2"))
	sort.Strings(files)
	res := &CrossResult{Scripts: len(files), Z3New: map[string]int{}, CVC5: map[string]int{}, Disagree: []string{}}
	type job struct{ f string }
	var mu sync.Mutex
	var wg sync.WaitGroup
	ch := make(chan string)
	runOne := func(name string, args ...string) string {
		ctx, cancel := context.WithTimeout(context.Background(), 40*time.Second)
		defer cancel()
		out, _ := exec.CommandContext(ctx, name, args...).CombinedOutput()
		txt := string(out)
		if strings.Contains(txt, "(error") {
			return "error"
		}
		for _, l := range strings.Split(txt, "\n") {
			switch strings.TrimSpace(l) {
			case "unsat":
				return "unsat"
			case "sat":
				return "sat"
			}
		}
		return "unknown"
	}
	if workers > 8 {
		workers = 8
	}
	for w := 0; w < workers; w++ {
		wg.Add(1)
		go func() {
			defer wg.Done()
			for f := range ch {
				a := runOne("z3-new", "-T:30", f)
				b := runOne("cvc5", "--tlimit=30000", f)
				mu.Lock()
				res.Z3New[a]++
				res.CVC5[b]++
				if a == "sat" || b == "sat" {
					keep := filepath.Join(filepath.Dir(filepath.Dir(dir)), "disagree-"+filepath.Base(f))
					if data, err := os.ReadFile(f); err == nil {
						os.WriteFile(keep, data, 0o644)
					}
					res.Disagree = append(res.Disagree, fmt.Sprintf("%s: z3-new=%s cvc5=%s (kept %s)", filepath.Base(f), a, b, keep))
				}
				mu.Unlock()
			}
		}()
	}
	for _, f := range files {
		ch <- f
	}
	close(ch)
	wg.Wait()
	sort.Strings(res.Disagree)
	res.WallS = time.Since(t0).Seconds()
	return res
}
