package main

import (
	"fmt"
	"go/token"
	"go/types"
	"os"
	"path/filepath"
	"strings"
	"sync"
	"sync/atomic"
	"time"

	"golang.org/x/tools/go/packages"
	"golang.org/x/tools/go/ssa"
	"golang.org/x/tools/go/ssa/ssautil"
)

const modPath = "github.com/istio-ecosystem/authservice"

func fmtDuration(d int64) string { return time.Duration(d).String() }

func (e *Engine) durationStr(st *State, d *Term) *Str {
	// String() of a symbolic duration: an injective function of the value, modelled as a fresh
	// string per distinct term with pairwise injectivity constraints.
	key := "durstr"
	type app struct {
		d *Term
		s *Str
	}
	var apps []app
	if v, ok := st.ghost[key]; ok {
		apps = v.([]app)
	}
	for _, a := range apps {
		if a.d == d {
			return a.s
		}
	}
	s := st.newSymStr("dur", 6)
	st.addDef(st.sAllBytes(s, func(b *Term) *Term { return inSet(b, "0123456789hmsuµn.") }))
	st.addDef(Ge(sLen(s), I(2)))
	for _, a := range apps {
		st.addDef(Eq(Eq(d, a.d), st.sEq(s, a.s)))
	}
	st.ghost[key] = append(append([]app(nil), apps...), app{d, s})
	return s
}

// LoadProgram loads /repo (with the harness overlay) and builds SSA.
func LoadProgram(dir string, overlay map[string][]byte, patterns []string) (*Engine, error) {
	cfg := &packages.Config{Mode: packages.LoadAllSyntax, Dir: dir, Overlay: overlay,
		Env: append(os.Environ(), "GOFLAGS=-mod=mod", "GOPROXY=off")}
	pkgs, err := packages.Load(cfg, patterns...)
	if err != nil {
		return nil, err
	}
	nerr := 0
	packages.Visit(pkgs, nil, func(p *packages.Package) {
		for _, e := range p.Errors {
			if strings.HasPrefix(p.PkgPath, modPath) {
				fmt.Fprintln(os.Stderr, "LOAD ERROR", p.PkgPath, e)
				nerr++
			}
		}
	})
	if nerr > 0 {
		return nil, fmt.Errorf("%d load errors in the module under verification", nerr)
	}
	prog, _ := ssautil.AllPackages(pkgs, ssa.InstantiateGenerics)
	prog.Build()
	e := &Engine{prog: prog, fset: prog.Fset, pkgs: map[string]*ssa.Package{}, bounds: map[string]int{},
		globals: map[*ssa.Global]int{}, initPkgs: map[string]bool{}, covers: map[string]*Finding{},
		funcsSeen: map[string]bool{}, stubsSeen: map[string]bool{}, assumes: map[string]bool{}, oblLabels: map[string]int{},
		panicMode: "cut", unwind: 64, maxSteps: 2000000, solverTO: 30000, maxFind: 6, races: map[string]Access2{}}
	for _, p := range prog.AllPackages() {
		e.pkgs[p.Pkg.Path()] = p
	}
	if ep := e.pkgs["errors"]; ep != nil {
		e.errType = types.NewPointer(ep.Type("errorString").Type())
	}
	e.errorIface = types.Universe.Lookup("error").Type().Underlying().(*types.Interface)
	if tp := e.pkgs["github.com/tetratelabs/telemetry"]; tp != nil {
		e.loggerType = tp.Type("Logger").Type()
	}
	if cp := e.pkgs["context"]; cp != nil {
		e.ctxType = cp.Type("Context").Type()
	}
	e.registerIntrinsics()
	e.summarise = map[string]bool{}
	_ = 0
	e.merging = os.Getenv("GOSYM_NOMERGE") == ""
	if os.Getenv("GOSYM_NOSUM") != "" {
		defaultSummarised = nil
	}
	for _, n := range defaultSummarised {
		e.summarise[n] = true
	}
	return e, nil
}

// initPackages runs the initialisers of the authservice packages concretely.
func (e *Engine) initPackages(slv *Solver) error {
	st := &State{eng: e, slv: slv, heap: &Heap{objs: map[int]Value{}}, ghost: map[string]Value{}, harness: "<init>"}
	var order []*ssa.Package
	for path, p := range e.pkgs {
		if strings.HasPrefix(path, modPath+"/internal") {
			order = append(order, p)
		}
	}
	// the generated configuration packages: their initialisers are run too (validation lookup
	// tables), except the protobuf type registration (reflection; nothing executed here reads it)
	for path, p := range e.pkgs {
		if strings.HasPrefix(path, modPath+"/config/gen/go/") {
			order = append(order, p)
		}
	}
	for _, p := range order {
		e.initPkgs[p.Pkg.Path()] = true
	}
	// mark generated config packages as initialised too (their globals are descriptor tables that
	// the executed getters never read)
	for path := range e.pkgs {
		if strings.HasPrefix(path, modPath+"/config/") {
			e.initPkgs[path] = true
		}
	}
	for _, p := range order {
		initFn := p.Func("init")
		if initFn == nil || initFn.Blocks == nil {
			continue
		}
		st.threads = []*Thread{{name: "init", frames: []*Frame{e.newFrame(initFn, nil, nil, nil)}}}
		st.cur = 0
		st.done = false
		st.steps = 0
		e.inInit = true
		work := []*State{st}
		for len(work) > 0 {
			s := work[len(work)-1]
			work = work[:len(work)-1]
			succ := e.run(s)
			if len(succ) > 1 {
				return fmt.Errorf("package init of %s forked", p.Pkg.Path())
			}
			work = append(work, succ...)
		}
		e.inInit = false
		st.done = false
	}
	if len(e.incon) > 0 {
		return fmt.Errorf("package init inconclusive: %v", e.incon)
	}
	e.initHeap = st.heap
	e.stats = Stats{}
	e.funcsSeen = map[string]bool{}
	e.stubsSeen = map[string]bool{}
	return nil
}

// RunHarness explores all paths of one harness function.
func (e *Engine) RunHarness(pkgPath, fnName string, workers int, workDir string) error {
	p := e.pkgs[pkgPath]
	if p == nil {
		return fmt.Errorf("package %s not loaded", pkgPath)
	}
	fn := p.Func(fnName)
	if fn == nil {
		return fmt.Errorf("harness %s not found in %s", fnName, pkgPath)
	}
	root := &State{eng: e, heap: e.initHeap.clone(), ghost: map[string]Value{}, harness: fnName, audit: e.audit}
	root.threads = []*Thread{{name: "main", frames: []*Frame{e.newFrame(fn, nil, nil, nil)}}}
	atomic.AddInt64(&e.stats.States, 1)

	var (
		mu      sync.Mutex
		cond    = sync.NewCond(&mu)
		stack   = []*State{root}
		active  = 0
		fatal   interface{}
		wg      sync.WaitGroup
		started = time.Now()
	)
	stopMon := make(chan struct{})
	if e.verbose {
		go func() {
			tk := time.NewTicker(5 * time.Second)
			defer tk.Stop()
			for {
				select {
				case <-stopMon:
					return
				case <-tk.C:
					mu.Lock()
					sl, ac := len(stack), active
					mu.Unlock()
					fmt.Fprintf(os.Stderr, "[%s %.0fs] states=%d paths=%d instrs=%d queries=%d (unknown %d) smt=%.0fs stack=%d active=%d findings=%d\n", fnName, time.Since(started).Seconds(),
						atomic.LoadInt64(&e.stats.States), atomic.LoadInt64(&e.stats.Paths), atomic.LoadInt64(&e.stats.Instrs), atomic.LoadInt64(&gStats.Queries), atomic.LoadInt64(&gStats.Unknown), float64(atomic.LoadInt64(&gStats.NanosSMT))/1e9, sl, ac, len(e.findings))
				}
			}
		}()
	}
	defer close(stopMon)
	for w := 0; w < workers; w++ {
		wg.Add(1)
		go func(w int) {
			defer wg.Done()
			logPath := ""
			if workDir != "" && e.verbose {
				logPath = filepath.Join(workDir, fmt.Sprintf("%s-w%d.smt2", fnName, w))
			}
			slv, err := NewSolver("z3", e.solverTO, logPath)
			if err != nil {
				mu.Lock()
				fatal = err
				cond.Broadcast()
				mu.Unlock()
				return
			}
			defer slv.Close()
			for {
				mu.Lock()
				for len(stack) == 0 && active > 0 && fatal == nil {
					cond.Wait()
				}
				if fatal != nil || (len(stack) == 0 && active == 0) {
					cond.Broadcast()
					mu.Unlock()
					return
				}
				st := stack[len(stack)-1]
				stack = stack[:len(stack)-1]
				active++
				mu.Unlock()

				var local []*State
				local = append(local, st)
				func() {
					defer func() {
						if r := recover(); r != nil {
							mu.Lock()
							fatal = fmt.Sprintf("engine panic in %s: %v", fnName, r)
							mu.Unlock()
						}
					}()
					// depth-first on the local stack; share surplus with idle workers
					for len(local) > 0 {
						s := local[len(local)-1]
						local = local[:len(local)-1]
						s.slv = slv
						succ := e.run(s)
						local = append(local, succ...)
						if len(local) > 1 {
							mu.Lock()
							if len(stack) < workers {
								// hand over the oldest local states
								n := len(local) - 1
								stack = append(stack, local[:n]...)
								local = local[n:]
								cond.Broadcast()
							}
							mu.Unlock()
						}
						if e.deadline > 0 && time.Since(started) > e.deadline {
							e.inconclusive("TIMEOUT exploring " + fnName)
							local = nil
							mu.Lock()
							stack = nil
							mu.Unlock()
						}
					}
				}()
				mu.Lock()
				active--
				cond.Broadcast()
				mu.Unlock()
			}
		}(w)
	}
	wg.Wait()
	if fatal != nil {
		return fmt.Errorf("%v", fatal)
	}
	return nil
}

// intrByPattern finds intrinsics that apply to families of functions.
func (e *Engine) intrByPattern(fn *ssa.Function) (Intrinsic, bool) {
	if e.inInit {
		if fn.Pkg != nil && fn.Name() == "init" && !e.initPkgs[fn.Pkg.Pkg.Path()] {
			return func(c *CallCtx) []Outcome { return c.ret(nil) }, true
		}
		if fn.Pkg != nil && strings.HasPrefix(fn.Name(), "file_") && strings.HasSuffix(fn.Name(), "_proto_init") {
			return func(c *CallCtx) []Outcome { return c.ret(nil) }, true
		}
	}
	return nil, false
}

// globalModel supplies values for globals of packages whose initialisers are not executed.
func (e *Engine) globalModel(st *State, g *ssa.Global) (Value, bool) {
	name := g.Pkg.Pkg.Path() + "." + g.Name()
	switch name {
	case "encoding/base64.StdEncoding", "encoding/base64.URLEncoding", "encoding/base64.RawURLEncoding", "encoding/base64.RawStdEncoding":
		return Ptr{obj: st.newObj(OpaqueV{kind: "b64enc", data: name})}, true
	case "encoding/binary.LittleEndian", "encoding/binary.BigEndian":
		return zero(g.Type().(*types.Pointer).Elem()), true
	case "crypto/rand.Reader":
		return IfaceV{t: e.namedType("io", "Reader"), v: OpaqueV{kind: "cryptoreader"}}, true
	case "net/http.DefaultTransport":
		// a *http.Transport with default (zero) settings; the code under test clones and adjusts it
		tt := e.namedType("net/http", "Transport")
		return IfaceV{t: types.NewPointer(tt), v: Ptr{obj: st.newObj(zero(tt))}}, true
	case "io.EOF", "github.com/redis/go-redis/v9.Nil", "net/http.ErrUseLastResponse":
		return e.newErrorOnce(name), true
	}
	return nil, false
}

func (e *Engine) newErrorOnce(name string) IfaceV {
	e.mu.Lock()
	defer e.mu.Unlock()
	if e.sentinels == nil {
		e.sentinels = map[string]IfaceV{}
	}
	if v, ok := e.sentinels[name]; ok {
		return v
	}
	v := IfaceV{t: e.errType, v: OpaqueV{kind: "error", data: &errData{msg: name}}}
	e.sentinels[name] = v
	return v
}

// recordAccess: lock-discipline audit. While objects are being watched (vn.Watch), every load,
// store or map access to them must happen with at least one mutex held.
func (e *Engine) recordAccess(st *State, p Ptr, write bool, pos token.Pos) {
	if mark, ok := st.ghost["watchshared"]; ok && write && len(st.lockset) == 0 {
		if m, _ := mark.(*Term).ConstInt(); int64(p.obj) <= m {
			// writes made by the harness's own mocks and monitors are not the code under test's
			where := e.pos(pos)
			if !strings.Contains(where, "zz_verif_") && !strings.Contains(where, "internal/vn/") {
				e.reportFinding(st, "lock-discipline/shared-write-without-lock", "assert", where, nil)
			}
		}
	}
	if _, ok := st.ghost[fmt.Sprintf("watch:%d", p.obj)]; !ok {
		if _, okw := st.ghost[fmt.Sprintf("watchw:%d", p.obj)]; !okw || !write {
			return
		}
	}
	if len(st.lockset) == 0 {
		kind := "read"
		if write {
			kind = "write"
		}
		e.reportFinding(st, "lock-discipline/"+kind+"-without-lock", "assert", e.pos(pos), nil)
	}
}
