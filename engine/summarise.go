package main

// Function summarisation: a call to a designated side-effect-free function is explored to
// completion on all its paths and the outcomes are merged into one successor state per result
// shape:  pc' = pc ∧ ⋁_i (delta_i ∧ result = r_i).  This removes the multiplicative path
// explosion of pure helpers (splitters, matchers, validity predicates) without losing paths.

import (
	"fmt"
	"strings"
	"sync/atomic"

	"golang.org/x/tools/go/ssa"
)

var defaultSummarised = []string{
	modPath + "/internal/http.GetPathQueryFragment",
	modPath + "/internal/authz.matchesCallbackPath",
	modPath + "/internal/authz.matchesLogoutPath",
	modPath + "/internal/authz.getSessionIDFromCookie",
	modPath + "/internal/authz.isValidIDPNewTokensResponse",
	modPath + "/internal/authz.isValidIDPRefreshTokenResponse",
	modPath + "/internal/authz.encodeHeaderValue",
	modPath + "/internal/server.matches",
}

func sameValue(a, b Value) bool {
	switch x := a.(type) {
	case *Term:
		y, ok := b.(*Term)
		return ok && x == y
	case *Str:
		y, ok := b.(*Str)
		return ok && x == y
	case *StructV:
		y, ok := b.(*StructV)
		return ok && x == y
	case *ArrayV:
		y, ok := b.(*ArrayV)
		return ok && x == y
	case *MapObj:
		y, ok := b.(*MapObj)
		return ok && x == y
	}
	return shallowEqual(a, b)
}

// strShape: strings merge only when their rope structure is identical (same constants in the
// same places), so that merging never destroys the structure the string library exploits.
func strShape(s *Str) string {
	var sb strings.Builder
	sb.WriteString("S[")
	for _, p := range s.p {
		if p.isConst() {
			sb.WriteString("c:")
			sb.WriteString(p.c)
			sb.WriteByte('|')
		} else {
			sb.WriteString("v|")
		}
	}
	sb.WriteString("]")
	return sb.String()
}

func shapeKey(v Value) string {
	switch x := v.(type) {
	case nil:
		return "nil"
	case *Term:
		return "T" + x.sort.String()
	case *Str:
		return strShape(x)
	case TupleV:
		var p []string
		for _, c := range x {
			p = append(p, shapeKey(c))
		}
		return "(" + strings.Join(p, ",") + ")"
	case IfaceV:
		if x.t == nil {
			return "I:nil"
		}
		if op, ok := x.v.(OpaqueV); ok && op.kind == "error" {
			return "I:err"
		}
		return "I:" + x.t.String() + ":" + shapeKey(x.v)
	case Ptr:
		return fmt.Sprintf("P%d%v", x.obj, x.path)
	case TimeV:
		return "Time"
	}
	return fmt.Sprintf("%T:%v", v, v)
}

// mergeInto returns a value equal to vals[i] under constraint set i; eqs[i] collects the
// equalities for branch i.
func (e *Engine) mergeInto(st *State, vals []Value, eqs [][]*Term) Value {
	switch x := vals[0].(type) {
	case *Term:
		all := true
		for _, v := range vals {
			if v.(*Term) != x {
				all = false
			}
		}
		if all {
			return x
		}
		r := FreshVar("sum", x.sort)
		for i, v := range vals {
			eqs[i] = append(eqs[i], Eq(r, v.(*Term)))
		}
		return r
	case *Str:
		all := true
		for _, v := range vals {
			if v.(*Str) != x {
				all = false
			}
		}
		if all {
			return x
		}
		// identical rope structure (guaranteed by strShape): merge view pieces one by one
		out := make([]Piece, len(x.p))
		for k, p0 := range x.p {
			if p0.isConst() {
				out[k] = p0
				continue
			}
			same := true
			cap := 0
			var alpha *alphabet
			alphaOK := true
			for _, v := range vals {
				pk := v.(*Str).p[k]
				if pk.arr != p0.arr || pk.off != p0.off || pk.n != p0.n {
					same = false
				}
				if pk.cap > cap {
					cap = pk.cap
				}
				if pk.alpha == nil {
					alphaOK = false
				}
			}
			if same {
				out[k] = p0
				continue
			}
			if alphaOK {
				var ps []Piece
				for _, v := range vals {
					ps = append(ps, v.(*Str).p[k])
				}
				alpha = unionAlpha(ps)
			}
			r := st.newSymStr("sum", cap)
			r.p[0].alpha = alpha
			for _, v := range vals {
				r.p[0].taint |= v.(*Str).p[k].taint
			}
			for i, v := range vals {
				eqs[i] = append(eqs[i], st.sEq(r, &Str{p: []Piece{v.(*Str).p[k]}}))
			}
			out[k] = r.p[0]
		}
		return &Str{p: out}
	case TupleV:
		out := make(TupleV, len(x))
		for k := range x {
			comp := make([]Value, len(vals))
			for i, v := range vals {
				comp[i] = v.(TupleV)[k]
			}
			out[k] = e.mergeInto(st, comp, eqs)
		}
		return out
	case TimeV:
		comp := make([]Value, len(vals))
		for i, v := range vals {
			comp[i] = v.(TimeV).ns
		}
		return TimeV{e.mergeInto(st, comp, eqs).(*Term)}
	case IfaceV:
		if x.t != nil {
			if _, isErr := x.v.(OpaqueV); !isErr {
				comp := make([]Value, len(vals))
				for i, v := range vals {
					comp[i] = v.(IfaceV).v
				}
				return IfaceV{t: x.t, v: e.mergeInto(st, comp, eqs)}
			}
		}
		return x
	}
	return vals[0]
}

type summaryEnd struct {
	st  *State
	res Value
}

// summariseCall explores fn(args) exhaustively and merges. ok=false means "not mergeable":
// the caller proceeds with an ordinary call.
func (e *Engine) summariseCall(st *State, fn *ssa.Function, args, bind []Value, retTo ssa.Value, advance bool) ([]*State, bool) {
	base := st.pc
	sub := st.clone()
	th := sub.thread()
	nf := e.newFrame(fn, args, bind, nil)
	nf.barrier = true
	th.frames = append(th.frames, nf)
	work := []*State{sub}
	var ends []summaryEnd
	n := 0
	for len(work) > 0 {
		s := work[len(work)-1]
		work = work[:len(work)-1]
		s.slv = st.slv
		succ := e.run(s)
		if s.sumDone {
			ends = append(ends, summaryEnd{s, s.sumRes})
			s.sumDone = false
			n++
			continue
		}
		for _, x := range succ {
			if x.sumDone {
				ends = append(ends, summaryEnd{x, x.sumRes})
				x.sumDone = false
			} else {
				work = append(work, x)
			}
		}
	}
	if len(ends) == 0 {
		// every path of the callee ended (panic cut / infeasible): the caller's path ends too
		st.done = true
		return nil, true
	}
	// purity and mergeability checks
	mergeable := true
	for _, en := range ends {
		t := en.st
		if len(t.inputs) != len(st.inputs) || len(t.threads) != len(st.threads) {
			mergeable = false
			break
		}
		for id, v := range st.heap.objs {
			if !sameValue(t.heap.objs[id], v) {
				mergeable = false
				break
			}
		}
		if !ghostCompatible(st, t, ends[0].st) {
			mergeable = false
		}
		if !mergeable {
			break
		}
	}
	finish := func(s *State, res Value) {
		fr := s.top()
		if advance {
			if retTo != nil {
				fr.regs[retTo] = res
			}
			fr.ip++
		}
	}
	if !mergeable {
		e.noteAssume("summarisation of " + fn.Name() + " fell back to path enumeration (side effects)")
		var out []*State
		for _, en := range ends {
			// en.st still has the caller's frames (the barrier frame was popped)
			finish(en.st, en.res)
			out = append(out, en.st)
		}
		return out, true
	}
	// group by result shape; for the generated validators any two non-nil errors are the same
	// outcome (the caller only propagates them), so the first one stands for all
	coarseErr := e.summariseByPattern(fn)
	groups := map[string][]summaryEnd{}
	var order []string
	for _, en := range ends {
		k := shapeKey(en.res)
		if iv, ok := en.res.(IfaceV); ok && coarseErr {
			if iv.t == nil {
				k = "I:nil"
			} else {
				k = "I:err"
			}
		}
		if _, ok := groups[k]; !ok {
			order = append(order, k)
		}
		groups[k] = append(groups[k], en)
	}
	var out []*State
	for gi, k := range order {
		g := groups[k]
		m := st
		if gi < len(order)-1 {
			m = st.clone()
		}
		vals := make([]Value, len(g))
		eqs := make([][]*Term, len(g))
		for i, en := range g {
			vals[i] = en.res
		}
		var res Value
		if iv, ok := vals[0].(IfaceV); ok && coarseErr && iv.t != nil {
			res = vals[0]
			// objects the representative error refers to must exist in the merged heap
			for id, v := range g[0].st.heap.objs {
				if _, ok := m.heap.objs[id]; !ok {
					m.heap.objs[id] = v
				}
			}
		} else {
			res = e.mergeInto(m, vals, eqs)
		}
		var disj []*Term
		for i, en := range g {
			var delta []*Term
			for q := en.st.pc; q != nil && q != base; q = q.parent {
				delta = append(delta, q.t)
			}
			// restore order (oldest first)
			for l, r := 0, len(delta)-1; l < r; l, r = l+1, r-1 {
				delta[l], delta[r] = delta[r], delta[l]
			}
			disj = append(disj, And(append(delta, eqs[i]...)...))
		}
		m.assume(Or(disj...))
		// unite the registries of all branches so that later applications stay consistent
		for _, en := range g {
			uniteGhost(m.ghost, en.st.ghost)
		}
		// objects allocated by the callee that the result references must exist in the merged heap
		if len(g) == 1 {
			for id, v := range g[0].st.heap.objs {
				if _, ok := m.heap.objs[id]; !ok {
					m.heap.objs[id] = v
				}
			}
		}
		finish(m, res)
		out = append(out, m)
	}
	atomic.AddInt64(&e.stats.Summaries, 1)
	atomic.AddInt64(&e.stats.SummaryPaths, int64(len(ends)))
	if len(out) == 1 && out[0] == st {
		return nil, false
	}
	return out, true
}

// summariseByPattern: the generated validators (method "validate" of every configuration
// message) are pure and consist of long sequences of independent checks that accumulate errors;
// summarising them (result: nil or some error) avoids 2^checks paths.
func (e *Engine) summariseByPattern(fn *ssa.Function) bool {
	if fn.Pkg == nil || fn.Name() != "validate" {
		return false
	}
	return strings.HasPrefix(fn.Pkg.Pkg.Path(), modPath+"/config/gen/go/")
}
