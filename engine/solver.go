package main

// Persistent SMT solver processes (z3 -in / z3-new -in / cvc5 --incremental) with a
// push/pop stack that mirrors the path condition of the state being executed.

import (
	"bufio"
	"fmt"
	"io"
	"math/big"
	"os"
	"os/exec"
	"strings"
	"sync/atomic"
	"time"
)

type Res int

const (
	Sat Res = iota
	Unsat
	Unknown
)

func (r Res) String() string { return [...]string{"sat", "unsat", "unknown"}[r] }

// PC is a persistent path condition (linked list, shared between forks).
type PC struct {
	parent *PC
	t      *Term
	depth  int
}

func (p *PC) With(t *Term) *PC {
	if t.IsTrue() {
		return p
	}
	d := 1
	if p != nil {
		d = p.depth + 1
	}
	return &PC{parent: p, t: t, depth: d}
}

func (p *PC) Slice() []*Term {
	if p == nil {
		return nil
	}
	out := make([]*Term, p.depth)
	for q := p; q != nil; q = q.parent {
		out[q.depth-1] = q.t
	}
	return out
}

type SolverStats struct {
	Queries  int64
	Sat      int64
	Unsat    int64
	Unknown  int64
	Errors   int64
	Retries  int64
	NanosSMT int64
}

var gStats SolverStats

type Solver struct {
	kind     string
	cmd      *exec.Cmd
	in       io.WriteCloser
	out      *bufio.Reader
	stack    []*Term
	declared map[string]bool
	log      *os.File
	timeout  int // ms
	seq      int
}

func NewSolver(kind string, timeoutMs int, logPath string) (*Solver, error) {
	var cmd *exec.Cmd
	switch kind {
	case "z3":
		// option set chosen by replaying captured transcripts (5x faster than the defaults on the
		// Int + Array encodings produced here); none of them changes verdicts
		cmd = exec.Command("z3", "-in", "-smt2", "smt.arith.solver=2", "smt.relevancy=0", "smt.phase_selection=4")
	case "z3-new":
		cmd = exec.Command("z3-new", "-in", "-smt2")
	case "cvc5":
		cmd = exec.Command("cvc5", "--incremental", "--lang", "smt2", "--produce-models", fmt.Sprintf("--tlimit-per=%d", timeoutMs))
	default:
		return nil, fmt.Errorf("unknown solver %s", kind)
	}
	in, err := cmd.StdinPipe()
	if err != nil {
		return nil, err
	}
	outp, err := cmd.StdoutPipe()
	if err != nil {
		return nil, err
	}
	cmd.Stderr = cmd.Stdout
	if err := cmd.Start(); err != nil {
		return nil, err
	}
	s := &Solver{kind: kind, cmd: cmd, in: in, out: bufio.NewReaderSize(outp, 1<<20), declared: map[string]bool{}, timeout: timeoutMs}
	if logPath != "" {
		s.log, _ = os.Create(logPath)
	}
	if kind == "cvc5" {
		s.send("(set-logic ALL)")
	}
	s.send("(set-option :global-declarations true)")
	s.send("(set-option :produce-models true)")
	if kind != "cvc5" {
		s.send(fmt.Sprintf("(set-option :timeout %d)", timeoutMs))
	}
	return s, nil
}

func (s *Solver) Close() {
	if s == nil || s.cmd == nil {
		return
	}
	s.in.Close()
	done := make(chan struct{})
	go func() { s.cmd.Wait(); close(done) }()
	select {
	case <-done:
	case <-time.After(2 * time.Second):
		s.cmd.Process.Kill()
	}
	if s.log != nil {
		s.log.Close()
	}
	s.cmd = nil
}

func (s *Solver) send(line string) {
	if s.log != nil {
		s.log.WriteString(line)
		s.log.WriteString("\n")
	}
	io.WriteString(s.in, line)
	io.WriteString(s.in, "\n")
}

// roundtrip sends a command followed by an echo marker and returns all output lines before it.
func (s *Solver) roundtrip(cmd string) []string {
	s.seq++
	marker := fmt.Sprintf("<<m%d>>", s.seq)
	s.send(cmd)
	s.send(fmt.Sprintf("(echo \"%s\")", marker))
	var lines []string
	for {
		l, err := s.out.ReadString('\n')
		l = strings.TrimSpace(l)
		if strings.Contains(l, marker) {
			break
		}
		if l != "" {
			lines = append(lines, l)
		}
		if err != nil {
			lines = append(lines, "(error \"solver died: "+err.Error()+"\")")
			break
		}
	}
	if s.log != nil {
		for _, l := range lines {
			s.log.WriteString("; -> " + l + "\n")
		}
	}
	return lines
}

func (s *Solver) declare(t *Term) {
	d := &declSet{vars: map[string]Sort{}, ufs: map[string]string{}}
	collectDecls(t, map[int]bool{}, d)
	for n, so := range d.vars {
		if !s.declared[n] {
			s.declared[n] = true
			s.send(fmt.Sprintf("(declare-const %s %s)", n, so))
		}
	}
	for n, sig := range d.ufs {
		if !s.declared["uf:"+n] {
			s.declared["uf:"+n] = true
			s.send(fmt.Sprintf("(declare-fun %s %s)", n, sig))
		}
	}
}

// restart replaces the solver process (drops the accumulated global declarations).
func (s *Solver) restart() {
	logPath := ""
	old := s.cmd
	s.in.Close()
	go func() { old.Wait() }()
	n, err := NewSolver(s.kind, s.timeout, logPath)
	if err != nil {
		panic("cannot restart solver: " + err.Error())
	}
	lg := s.log
	*s = *n
	s.log = lg
}

// Sync makes the solver's assertion stack equal to pc.
func (s *Solver) Sync(pc []*Term) {
	if len(s.declared) > 150000 {
		s.restart()
	}
	common := 0
	for common < len(pc) && common < len(s.stack) && pc[common] == s.stack[common] {
		common++
	}
	if n := len(s.stack) - common; n > 0 {
		s.send(fmt.Sprintf("(pop %d)", n))
		s.stack = s.stack[:common]
	}
	for _, t := range pc[common:] {
		s.declare(t)
		s.send("(push 1)")
		s.send("(assert " + smt(t) + ")")
		s.stack = append(s.stack, t)
	}
}

func parseRes(lines []string) Res {
	r := Unknown
	got := false
	for _, l := range lines {
		if strings.HasPrefix(l, "(error") {
			atomic.AddInt64(&gStats.Errors, 1)
			return Unknown
		}
		switch l {
		case "sat":
			r, got = Sat, true
		case "unsat":
			r, got = Unsat, true
		case "unknown", "timeout":
			r, got = Unknown, true
		}
	}
	if !got {
		return Unknown
	}
	return r
}

// Check decides pc ∧ extra (extra may be nil). The solver must be Sync'ed to pc already.
func (s *Solver) Check(extra *Term) Res {
	if extra != nil {
		if extra.IsFalse() {
			return Unsat
		}
		s.declare(extra)
	}
	t0 := time.Now()
	var lines []string
	if extra != nil && !extra.IsTrue() {
		s.send("(push 1)")
		s.send("(assert " + smt(extra) + ")")
		lines = s.roundtrip("(check-sat)")
		s.send("(pop 1)")
	} else {
		lines = s.roundtrip("(check-sat)")
	}
	r := parseRes(lines)
	if r == Unknown && s.kind != "cvc5" {
		// a loaded machine can push a normally instant query over the time limit: retry once with
		// four times the limit before giving up
		s.send(fmt.Sprintf("(set-option :timeout %d)", 4*s.timeout))
		if extra != nil && !extra.IsTrue() {
			s.send("(push 1)")
			s.send("(assert " + smt(extra) + ")")
			lines = s.roundtrip("(check-sat)")
			s.send("(pop 1)")
		} else {
			lines = s.roundtrip("(check-sat)")
		}
		s.send(fmt.Sprintf("(set-option :timeout %d)", s.timeout))
		r = parseRes(lines)
		atomic.AddInt64(&gStats.Retries, 1)
	}
	atomic.AddInt64(&gStats.Queries, 1)
	atomic.AddInt64(&gStats.NanosSMT, int64(time.Since(t0)))
	switch r {
	case Sat:
		atomic.AddInt64(&gStats.Sat, 1)
	case Unsat:
		atomic.AddInt64(&gStats.Unsat, 1)
	default:
		atomic.AddInt64(&gStats.Unknown, 1)
	}
	return r
}

// CheckModel decides pc ∧ extra and, when sat, evaluates the given Int/Bool terms
// (in two rounds if round2 is given: it receives the first values and returns more terms).
func (s *Solver) CheckModel(extra *Term, terms []*Term, round2 func(map[int]*big.Int) []*Term) (Res, map[int]*big.Int) {
	if extra != nil {
		s.declare(extra)
	}
	t0 := time.Now()
	s.send("(push 1)")
	if extra != nil {
		s.send("(assert " + smt(extra) + ")")
	}
	lines := s.roundtrip("(check-sat)")
	r := parseRes(lines)
	atomic.AddInt64(&gStats.Queries, 1)
	vals := map[int]*big.Int{}
	if r == Sat {
		atomic.AddInt64(&gStats.Sat, 1)
		s.getValues(terms, vals)
		if round2 != nil {
			s.getValues(round2(vals), vals)
		}
	} else if r == Unsat {
		atomic.AddInt64(&gStats.Unsat, 1)
	} else {
		atomic.AddInt64(&gStats.Unknown, 1)
	}
	s.send("(pop 1)")
	atomic.AddInt64(&gStats.NanosSMT, int64(time.Since(t0)))
	return r, vals
}

func (s *Solver) getValues(terms []*Term, vals map[int]*big.Int) {
	const chunk = 200
	for i := 0; i < len(terms); i += chunk {
		j := i + chunk
		if j > len(terms) {
			j = len(terms)
		}
		var sb strings.Builder
		sb.WriteString("(get-value (")
		for _, t := range terms[i:j] {
			s.declare(t)
			sb.WriteString(smt(t))
			sb.WriteByte(' ')
		}
		sb.WriteString("))")
		lines := s.roundtrip(sb.String())
		txt := strings.Join(lines, " ")
		sx, _, err := parseSexp(txt, 0)
		if err != nil || sx.atom != "" {
			continue
		}
		for k, pair := range sx.list {
			if k >= j-i || len(pair.list) != 2 {
				continue
			}
			if v, ok := sexpValue(pair.list[1]); ok {
				vals[terms[i+k].id] = v
			}
		}
	}
}

type sexp struct {
	atom string
	list []*sexp
}

func parseSexp(s string, i int) (*sexp, int, error) {
	for i < len(s) && (s[i] == ' ' || s[i] == '\n' || s[i] == '\t') {
		i++
	}
	if i >= len(s) {
		return nil, i, fmt.Errorf("eof")
	}
	if s[i] == '(' {
		i++
		x := &sexp{}
		for {
			for i < len(s) && (s[i] == ' ' || s[i] == '\n' || s[i] == '\t') {
				i++
			}
			if i >= len(s) {
				return nil, i, fmt.Errorf("eof in list")
			}
			if s[i] == ')' {
				return x, i + 1, nil
			}
			c, j, err := parseSexp(s, i)
			if err != nil {
				return nil, j, err
			}
			x.list = append(x.list, c)
			i = j
		}
	}
	j := i
	if s[i] == '"' {
		j = i + 1
		for j < len(s) && s[j] != '"' {
			j++
		}
		j++
	} else {
		for j < len(s) && s[j] != ' ' && s[j] != ')' && s[j] != '(' && s[j] != '\n' {
			j++
		}
	}
	if j > len(s) {
		j = len(s)
	}
	return &sexp{atom: s[i:j]}, j, nil
}

func sexpValue(x *sexp) (*big.Int, bool) {
	if x.atom != "" {
		switch x.atom {
		case "true":
			return big.NewInt(1), true
		case "false":
			return big.NewInt(0), true
		}
		v, ok := new(big.Int).SetString(x.atom, 10)
		return v, ok
	}
	if len(x.list) == 2 && x.list[0].atom == "-" {
		v, ok := sexpValue(x.list[1])
		if !ok {
			return nil, false
		}
		return new(big.Int).Neg(v), true
	}
	return nil, false
}
