package main

// Runtime values of the symbolic interpreter. Values are immutable; the heap maps
// object ids to values and is copied (shallowly) on fork.

import (
	"fmt"
	"go/types"
	"math/big"
	"strings"

	"golang.org/x/tools/go/ssa"
)

type Value interface{}

// Scalars: *Term of sort Int (all integer kinds) or Bool.
// Strings: *Str.

type FloatV struct{ f float64 }

type Ptr struct {
	obj  int   // 0 = nil
	path []int // field / element path inside the object
}

func (p Ptr) IsNil() bool { return p.obj == 0 }

type StructV struct{ f []Value }
type ArrayV struct{ e []Value }

type SliceV struct {
	obj           int // backing array object (0 = nil slice)
	off, len, cap int
}

// BytesV is an immutable []byte whose content is a (possibly symbolic) string.
type BytesV struct {
	s     *Str
	isNil bool
}

type MapV struct{ obj int } // 0 = nil map

type MapEntry struct{ k, v Value }
type MapObj struct {
	entries []MapEntry
}

type IfaceV struct {
	t types.Type // nil = nil interface
	v Value
}

type FuncV struct {
	fn    *ssa.Function
	bind  []Value
	intr  string // name of intrinsic when fn == nil
	extra []Value
}

type TupleV []Value

// TimeV models time.Time as nanoseconds since the Unix epoch (unbounded Int).
type TimeV struct{ ns *Term }

// OpaqueV is an engine-managed object (jwt token, key set, http request body reader, ...).
type OpaqueV struct {
	kind string
	data interface{}
}

type ChanV struct{ obj int }

// MutexV is the state of a sync.Mutex / RWMutex: 0 unlocked, 1 locked, >1 read-locked count+1.
type MutexV struct{ held int }

var zeroTimeNs = func() *Term {
	// 0001-01-01T00:00:00Z relative to the Unix epoch, in ns
	v := new(big.Int).Mul(big.NewInt(-62135596800), big.NewInt(1000000000))
	return IBig(v)
}()

func isNamed(t types.Type, pkg, name string) bool {
	n, ok := t.(*types.Named)
	if !ok {
		return false
	}
	o := n.Obj()
	return o.Name() == name && o.Pkg() != nil && o.Pkg().Path() == pkg
}

// zero returns the zero value of a Go type.
func zero(t types.Type) Value {
	if isNamed(t, "time", "Time") {
		return TimeV{zeroTimeNs}
	}
	if isNamed(t, "sync", "Mutex") || isNamed(t, "sync", "RWMutex") {
		return MutexV{}
	}
	switch u := t.Underlying().(type) {
	case *types.Basic:
		switch {
		case u.Info()&types.IsBoolean != 0:
			return tFalse
		case u.Info()&types.IsInteger != 0:
			return I(0)
		case u.Info()&types.IsFloat != 0:
			return FloatV{0}
		case u.Info()&types.IsString != 0:
			return emptyStr
		case u.Kind() == types.UnsafePointer:
			return Ptr{}
		case u.Kind() == types.UntypedNil:
			return nil
		}
	case *types.Pointer:
		return Ptr{}
	case *types.Struct:
		s := &StructV{f: make([]Value, u.NumFields())}
		for i := 0; i < u.NumFields(); i++ {
			s.f[i] = zero(u.Field(i).Type())
		}
		return s
	case *types.Array:
		a := &ArrayV{e: make([]Value, u.Len())}
		for i := range a.e {
			a.e[i] = zero(u.Elem())
		}
		return a
	case *types.Slice:
		if b, ok := u.Elem().Underlying().(*types.Basic); ok && b.Kind() == types.Byte {
			return BytesV{s: emptyStr, isNil: true}
		}
		return SliceV{}
	case *types.Map:
		return MapV{}
	case *types.Interface:
		return IfaceV{}
	case *types.Signature:
		return FuncV{}
	case *types.Chan:
		return ChanV{}
	case *types.Tuple:
		tv := make(TupleV, u.Len())
		for i := range tv {
			tv[i] = zero(u.At(i).Type())
		}
		return tv
	}
	panic(fmt.Sprintf("zero: unsupported type %v", t))
}

// ---------------------------------------------------------------- heap

type Heap struct {
	objs map[int]Value
}

var objSeq int64

func (h *Heap) clone() *Heap {
	n := &Heap{objs: make(map[int]Value, len(h.objs)+8)}
	for k, v := range h.objs {
		n.objs[k] = v
	}
	return n
}

func getPath(v Value, path []int) Value {
	for _, i := range path {
		switch c := v.(type) {
		case *StructV:
			v = c.f[i]
		case *ArrayV:
			v = c.e[i]
		default:
			panic(fmt.Sprintf("getPath: cannot index %T", v))
		}
	}
	return v
}

func setPath(v Value, path []int, nv Value) Value {
	if len(path) == 0 {
		return nv
	}
	i := path[0]
	switch c := v.(type) {
	case *StructV:
		n := &StructV{f: append([]Value(nil), c.f...)}
		n.f[i] = setPath(c.f[i], path[1:], nv)
		return n
	case *ArrayV:
		n := &ArrayV{e: append([]Value(nil), c.e...)}
		n.e[i] = setPath(c.e[i], path[1:], nv)
		return n
	}
	panic(fmt.Sprintf("setPath: cannot index %T", v))
}

func describe(v Value) string {
	switch x := v.(type) {
	case nil:
		return "nil"
	case *Term:
		return x.String()
	case *Str:
		return x.String()
	case Ptr:
		if x.IsNil() {
			return "nilptr"
		}
		return fmt.Sprintf("&o%d%v", x.obj, x.path)
	case *StructV:
		var p []string
		for _, f := range x.f {
			p = append(p, describe(f))
		}
		return "{" + strings.Join(p, ",") + "}"
	case IfaceV:
		if x.t == nil {
			return "nil-iface"
		}
		return fmt.Sprintf("iface(%v:%s)", x.t, describe(x.v))
	case TimeV:
		return "time(" + x.ns.String() + ")"
	case TupleV:
		var p []string
		for _, f := range x {
			p = append(p, describe(f))
		}
		return "(" + strings.Join(p, ",") + ")"
	}
	return fmt.Sprintf("%T", v)
}
