#!/usr/bin/env python3
"""Regenerates MANIFEST.json from the table below (kept in one place so that it stays valid)."""
import json, os
HERE = os.path.dirname(os.path.abspath(__file__))
TECH = "bounded symbolic execution of the real Go code (go/ssa -> SMT, z3 decides every branch and assertion; counterexamples replayed natively)"
claimed = {
 "C07": dict(
   text="Bounded symbolic model checking of the real ExtAuthZFilter.Check / mustTriggerCheck / matchTriggerRule / stringMatch / GetPathQueryFragment code: for every rule set, path, query and fragment within the byte/shape bounds the solver shows (unsat) that the trigger decision is independent of query/fragment and equals the documented function of the path (quick tier: up to two rules; path.Clean and compiled patterns are modelled, an invalid pattern is one of six witnesses that really do not compile). A for-all over strings that tests cannot enumerate; bounded, not a proof.",
   note="Trusted: go/ssa lowering, the engine's string library (byte-array encoding), z3; regexp.MatchString is an uninterpreted function of (pattern, subject). Outside: strings longer than the caps, more rules/patterns than the bounds."),
 "C08": dict(
   text="Bounded symbolic model checking of ExtAuthZFilter.Check / matches with mock filters against an independently written reference evaluator (first matching chain, conjunction with short circuit, default deny / allow_unmatched), for all chain lists, criteria, header maps and flags within the bounds. Added: two requests in a row on ONE filter instance, for two chains named alike (also both unnamed) or differently, each request matching either chain or none: the second verdict is the reference verdict of the second request alone (no state carried from request to request).",
   note="Trusted: go/ssa lowering, engine, z3. Header names lower-case ASCII (Envoy), criteria as accepted by the generated validation. Outside: more chains/filters/headers than the bounds; OIDC filters (C01)."),
}
pending = {}
props = [json.loads(l) for l in open(os.path.join(HERE, "properties.jsonl"))]
na_file = os.path.join(HERE, "not_applicable.json")
na = json.load(open(na_file)) if os.path.exists(na_file) else {}
cl_file = os.path.join(HERE, "claimed.json")
if os.path.exists(cl_file):
    claimed.update(json.load(open(cl_file)))
checks = []
for p in props:
    i = p["id"]
    if i in claimed and i not in na:
        c = claimed[i]
        checks.append({
            "property_id": i,
            "quick_cmd": f"./check {i} quick",
            "thorough_cmd": f"./check {i} thorough",
            "evidence_file": f"/verif/evidence/{i}.json",
            "replay_cmd_template": "./bin/gosym -replay {path}",
            "engine": "gosym",
            "level_claimed": {"category": "model_checking", "text": c["text"], "design_ref": f"DESIGN.md section 3 ({i})"},
            "level_note": c["note"],
            "technique": TECH,
        })
m = {
 "version": 1,
 "setup_cmd": "cd /verif/engine && GOFLAGS=-mod=mod GOPROXY=off go build -o ../bin/gosym .",
 "hooks": {"guard": "verif", "enable": "none needed: harnesses are injected with go/packages and `go test -overlay` (files under /verif/harness); /repo carries no instrumentation", "baseline_off_cmd": "cd /repo && go test -vet=off -count=1 ./...", "source_commits": [], "add_only": True},
 "engines": [{"name": "gosym", "path": "/verif/engine", "serves_properties": [c["property_id"] for c in checks], "kind_free_text": "path-forking symbolic interpreter over go/ssa with SMT (z3) back end, written for this task"}],
 "checks": checks,
 "not_applicable": [{"property_id": p["id"], "reason": na.get(p["id"], "check not built yet in this session (work in progress; see DESIGN.md section 3 for the plan)")} for p in props if p["id"] not in claimed or p["id"] in na],
 "notes": "Exit codes of ./check: 0 held within the stated bounds, 1 confirmed violation (replayed natively), 2 inconclusive (unmodelled callee, solver unknown, unwinding limit, vacuous harness, unconfirmed counterexample). Bounds, stubs, functions encoded, queries and solver time are in each evidence file.",
}
json.dump(m, open(os.path.join(HERE, "MANIFEST.json"), "w"), indent=1)
print("claimed:", [c["property_id"] for c in checks])
